"""Direct explorations for C02 C03 C10 C12(format) C13 C14 C15 C16 C17(find)."""
import itertools, json, random, re

import ansi_string
from ansi_string import AnsiString, AnsiStr, AnsiFormat, AnsiSetting
from . import model, impl
from .impl import guarded, Hang, ERR, FLAGS8, raw_obs, canon, form_py, form_wire
from .sx import to_str
from .term import EFFECTS, DEFAULT_STATE
from .oracles import prec_equiv, texts, SGR_RE, CHARS, BASE, RENDERS
from .gen import Gen, NAME_FORMS

ESC = '\x1b'


def errname(e):
    return type(e).__name__


def call(fn):
    try:
        return ('ok', guarded(fn))
    except Hang:
        return ('hang',)
    except Exception as e:  # noqa
        return ('err', errname(e))


def value_obs(o):
    """observation used to compare two values: text, per-character (canonical id, text), 8 renderings"""
    try:
        c = canon(raw_obs(o))
    except Hang:
        raise
    except Exception as e:  # noqa: the implementation raises while the value is being read - an observation of its own
        return ('unreadable', errname(e), str(e)[:200])
    return (c[1], c[2], c[3], c[4], c[5], c[7])


def describe(o):
    return {'base_str': o.base_str, 'settings': [[str(s) for s in o.ansi_settings_at(i)] for i in range(len(o.base_str))]}


# ====================================================================== C10
def rand_text(rng, unicode_=True):
    alpha = 'ab' if rng.random() < 0.7 else 'abAB1 \t\n,'
    extra = ['é', 'ß', 'ǅ', 'İ', ' ', '\x0b', '\x1c', '١', 'σ', 'Σ'] if unicode_ else []
    n = rng.choice([0, 1, 2, 3, 4, 5, 6, 8, 10])
    return ''.join(rng.choice(extra) if extra and rng.random() < 0.12 else rng.choice(alpha) for _ in range(n))


def sub_of(rng, t):
    if t and rng.random() < 0.7:
        i = rng.randrange(len(t))
        return t[i:i + rng.choice([1, 1, 2, 2, 3])]
    return rng.choice(['a', 'b', 'ab', 'ba', ' ', '', 'aa', 'abab', ',', 'zz'])


def optint(rng, n):
    return rng.choice([None, None, 0, 1, n, n - 1, -1, -2, n + 3, -n - 2, n // 2])


QUERY = ['count', 'find', 'rfind', 'index', 'rindex', 'endswith']
ISX = ['isalnum', 'isalpha', 'isascii', 'isdecimal', 'isdigit', 'isidentifier', 'islower', 'isnumeric', 'isprintable',
       'isspace', 'istitle', 'isupper']
CASE = ['capitalize', 'casefold', 'lower', 'upper', 'swapcase', 'title']


def c10_calls(rng, t):
    """(name, args, expected-on-str thunk, kind) ; kind: 'value' compare return value, 'text' compare base_str,
       'texts' compare list/tuple of base_str"""
    n = len(t)
    sub = sub_of(rng, t)
    a, b = optint(rng, n), optint(rng, n)
    W = ' \t\n\r\v\f'
    w = rng.choice([0, n - 1, n, n + 1, n + 2, n + 3, n + 6, -2])
    fill = rng.choice([' ', '*', '0', ':', 'é'])
    chars = rng.choice([None, 'a', 'ab', ' ', 'b ', '', t[:1], t[-1:], ' \n'])
    cnt = rng.choice([-1, -1, 0, 1, 2, 5])
    msp = rng.choice([-1, -1, 0, 1, 2])
    new = rng.choice(['', 'x', 'ab', 'ba', sub + sub, 'aa'])
    tab = rng.choice([0, 1, 2, 4, 8])
    dressed = rng.choice(['\x1b[1m' + sub, sub + '\x1b[m', '\x1b[31m' + sub + '\x1b[m'])     # a plain str is searched for as it is
    out = [('__len__', (), lambda: len(t), 'value'),
           ('__contains__', (sub,), lambda: sub in t, 'value'),
           ('__contains__', (dressed,), lambda: dressed in t, 'value'),
           ('find', (dressed, None, None), lambda: t.find(dressed), 'value'),
           ('count', (dressed, None, None), lambda: t.count(dressed), 'value')]
    for q in QUERY:
        out.append((q, (sub, a, b), (lambda q=q: getattr(t, q)(sub, a, b)), 'value'))
    out.append((rng.choice(ISX), (), None, 'value'))
    out.append((rng.choice(CASE), (), None, 'text'))
    st = lambda f: (lambda: f(W if chars is None else chars))
    out += [('strip', (chars,), st(t.strip), 'text'), ('lstrip', (chars,), st(t.lstrip), 'text'), ('rstrip', (chars,), st(t.rstrip), 'text'),
            ('removeprefix', (sub,), lambda: t.removeprefix(sub), 'text'),
            ('removesuffix', (sub,), lambda: t.removesuffix(sub), 'text'),
            ('ljust', (w, fill), lambda: t.ljust(w, fill), 'text'),
            ('rjust', (w, fill), lambda: t.rjust(w, fill), 'text'),
            ('center', (w, fill), lambda: format(t, '%s^%d' % (fill, max(w, 0))) if w > 0 else t, 'text'),
            ('zfill', (w,), lambda: t.rjust(w, '0'), 'text'),
            ('expandtabs', (tab,), lambda: t.replace('\t', ' ' * tab), 'text'),
            ('splitlines', (rng.random() < 0.5,), None, 'texts')]
    if sub != '':
        out += [('replace', (sub, new, cnt), lambda: t.replace(sub, new, cnt), 'text'),
                ('split', (sub, msp), lambda: t.split(sub, msp), 'texts'),
                ('rsplit', (sub, msp), lambda: t.rsplit(sub, msp), 'texts'),
                ('partition', (sub,), lambda: list(t.partition(sub)), 'texts'),
                ('rpartition', (sub,), lambda: (list(t.rpartition(sub)) if sub in t else [t, '', '']), 'texts')]
    else:
        out += [('replace', ('', new, cnt), lambda: t.replace('', new, cnt), 'text')]
    out += [('split', (None, msp), lambda: t.split(None, msp), 'texts'), ('rsplit', (None, msp), lambda: t.rsplit(None, msp), 'texts')]
    return out


class SpecOracleError(Exception):
    """a specification of Spec/PyStr.v disagrees with CPython's str: a defect of the machinery, not of the library"""


def validate_pystr(rep, rng, tier):
    """Spec/PyStr.v (extracted) against CPython's str on generated arguments"""
    reqs, want = [], []
    n = 1500 if tier == 'quick' else 40000
    for _ in range(n):
        t = rand_text(rng, unicode_=False) if rng.random() < 0.8 else rand_text(rng)
        chars = rng.choice(['a', 'ab', ' ', 'b ', '', t[:1], t[-1:], ' \t\n\r\x0b\x0c', 'ba'])
        sub = sub_of(rng, t)
        m = rng.choice([-1, -1, 0, 1, 2, 3])
        reqs += [[11, 0, chars, t, 0], [11, 1, chars, t, 0], [11, 2, chars, t, 0], [11, 3, sub, t, 0], [11, 4, sub, t, 0]]
        want += [t.lstrip(chars) if chars else t, t.rstrip(chars) if chars else t, t.strip(chars) if chars else t,
                 t.removeprefix(sub), t.removesuffix(sub)]
        if sub:
            reqs += [[11, 5, sub, t, 0], [11, 6, sub, t, 0], [11, 7, sub, t, m], [11, 8, sub, t, m]]
            rp = t.rpartition(sub)
            want += [list(t.partition(sub)), (list(rp) if sub in t else [t, '', '']), t.split(sub, m), t.rsplit(sub, m)]
    answers = model.ask(reqs, chunk=6000)
    bad = []
    for r, w, a in zip(reqs, want, answers):
        which = r[1]
        if which <= 4:
            got = to_str(a)
        elif which <= 6:
            got = [to_str(x) for x in a]
        else:
            got = [to_str(x) for x in a[0]]
            offs = [(o[0], o[1]) for o in a[1]]
            # the offsets must locate exactly those texts
            if [r[3][o:o + l] for (o, l) in offs] != got:
                bad.append((r, 'offsets %s do not locate texts %s' % (offs, got)))
        if got != w:
            bad.append((r, 'spec gives %r, str gives %r' % (got, w)))
    rep.bump('pystr_spec_validated', len(reqs))
    if bad:
        raise SpecOracleError('Spec/PyStr.v disagrees with CPython str on %d of %d cases, first: %s' % (len(bad), len(reqs), bad[0]))


def esc_text(rng):
    """a base text that contains U+001B: pieces that spell complete / incomplete / non-SGR control sequences next to ordinary
    characters.  Such a text is reachable (assign_str, concatenation, case conversion of ESC [ 1 M) and every C10 method has to
    treat it as the characters it consists of"""
    parts = ['a', 'b', 'm', 'M', '[', '1', ';', ' ', '\x1b', '\x1b[', '\x1b[1m', '\x1b[m', '\x1b[2J', '\x1b[31', 'ab', '1m']
    return ''.join(rng.choice(parts) for _ in range(rng.choice([1, 2, 3, 4, 5, 6, 8])))


ANSISTR_ARG_METHODS = {'__contains__', 'count', 'find', 'rfind', 'index', 'rindex', 'endswith', 'strip', 'lstrip', 'rstrip', 'removeprefix', 'removesuffix',
                       'replace', 'split', 'rsplit', 'partition', 'rpartition'}


class LoudStr(str):
    """a str subclass whose str() is not its characters (like class Color(str, Enum))"""
    def __str__(self):
        return 'LoudStr!'


def c10_make(clsname, t, settings):
    """the receiver of a C10 case.  '<cls>(AnsiString), source edited afterwards': the value is built FROM a mutable AnsiString
    which the caller keeps and edits in place afterwards - the built value's text is still t"""
    if ESC in t:
        # the constructor would parse t; assign_str takes a text as it is
        a = AnsiString('')
        a.assign_str(t)
        if settings:
            a.apply_formatting(settings)
        assert a.base_str == t
        return AnsiStr(a) if clsname.startswith('AnsiStr') else a
    if clsname.endswith('(str subclass with its own __str__)'):
        # the TEXT is the characters of the argument, whatever its __str__ says; also as operand of + and of assign_str
        cls = AnsiStr if clsname.startswith('AnsiStr(') else AnsiString
        half = len(t) // 2
        s = cls(LoudStr(t[:half]), *settings) + LoudStr(t[half:])
        return s
    if clsname in ('AnsiString', 'AnsiStr'):
        cls = AnsiStr if clsname == 'AnsiStr' else AnsiString
        s = cls(t, *settings)
        if settings and len(t) > 1 and cls is AnsiString:
            s.apply_formatting('bold', 1)
        return s
    cls = AnsiStr if clsname.startswith('AnsiStr(') else AnsiString
    src = AnsiString(t, *settings)
    s = cls(src)
    src.upper(inplace=True)
    src.swapcase(inplace=True)
    src += 'zz'
    src.strip('z', inplace=True)
    src.ljust(len(t) + 3, '.', inplace=True)
    src.assign_str('q' + t)
    return s


def c10_run(rep, rng, tier, term):
    viol = []
    validate_pystr(rep, rng, tier)
    # syntactic tie for the delegated methods (the model takes their result from str as data)
    import os as _os
    from . import delegation
    changed = delegation.check(_os.environ.get('VERIF_SRC', '/repo/src'))
    rep.notes.append('delegation shape checked for %d methods, %d changed' % (len(delegation.QUERIES) + len(delegation.CASES), len(changed)))
    delegation_div = [{'case': {'method': m}, 'what': 'delegated method no longer has the delegating shape', 'impl': why, 'model': 'str.%s on the base text' % m}
                      for (_, m, why) in changed]
    n = 2500 if tier == 'quick' else 80000
    for k in range(n):
        t = rand_text(rng) if k % 6 else esc_text(rng)
        cls = AnsiString if k % 3 else AnsiStr
        clsname = cls.__name__ if k % 7 else cls.__name__ + '(AnsiString), source edited afterwards'
        if k % 11 == 0 and ESC not in t:
            clsname = cls.__name__ + '(str subclass with its own __str__)'
        settings = [] if k % 2 else ['red']
        try:
            s = c10_make(clsname, t, settings)
        except Exception as e:  # noqa
            viol.append({'oracle': 'C10.construct', 'case': {'text': t}, 'msg': 'constructor raised %r' % e})
            continue
        for (name, args, exp, kind) in c10_calls(rng, t):
            if ESC in t and name in ('replace',) and len(args) > 1 and ESC in args[1]:
                continue      # a str REPLACEMENT with escape sequences is read as formatted text (documented: "if new is a str ...")
            if ESC in t and name in ('ljust', 'rjust', 'center', 'zfill') :
                pass
            payload = {'class': clsname, 'text': t, 'method': name, 'args': list(args)}
            if k % 2 == 0:
                payload['settings'] = settings
            rep.count(payload, bool(t))
            rep.bump('method:' + name)
            if exp is None:
                exp = lambda name=name, args=args: getattr(t, name)(*args)
            want = call(exp)
            call_args = args
            if name in ANSISTR_ARG_METHODS and args and type(args[0]) is str and args[0] and ESC not in args[0] and (k + len(name)) % 5 == 0:
                # the search argument given as a (formatted) AnsiStr stands for its text: same answer as for the text itself
                call_args = (AnsiStr(args[0], 'red') if k % 2 else AnsiStr(args[0]),) + tuple(args[1:])
                payload['first argument given as'] = 'AnsiStr(text, red)' if k % 2 else 'AnsiStr(text)'
            got = call(lambda: getattr(s, name)(*call_args))
            if got[0] == 'hang':
                viol.append({'oracle': 'C10.terminates', 'case': payload, 'msg': '%s did not terminate' % name})
                continue
            if want[0] == 'err' or got[0] == 'err':
                rep.bump('errors')
                if want[:2] != got[:2] and not (want[0] == 'err' and got[0] == 'err' and want[1] == got[1]):
                    viol.append({'oracle': 'C10.error', 'case': payload, 'msg': '%s: AnsiString %s, str %s' % (name, got, want)})
                continue
            g, w_ = got[1], want[1]
            if kind == 'text':
                g = g.base_str
            elif kind == 'texts':
                g, w_ = [x.base_str for x in g], list(w_)
            if g != w_:
                viol.append({'oracle': 'C10.' + name, 'case': payload, 'msg': '%s%r on %r gives %r, str gives %r' % (name, args, t, g, w_)})
            # the receiver's text never changes for non-in-place calls
            if s.base_str != t:
                viol.append({'oracle': 'C10.receiver', 'case': payload, 'msg': '%s changed the receiver text' % name})
                break
    # endswith also takes a TUPLE of suffixes; AnsiStr items in it stand for their text like a single AnsiStr argument
    for t in ('abc', 'abcb', '', 'b'):
        for cls in (AnsiString, AnsiStr):
            for tup, plain in (((AnsiStr('b', 'red'), 'zz'), ('b', 'zz')), (('x', AnsiStr('c')), ('x', 'c')), ((AnsiStr('bc', 'bold'),), ('bc',)), ((AnsiStr('', 'red'), 'q'), ('', 'q'))):
                payload = {'class': cls.__name__, 'text': t, 'method': 'endswith', 'args': [list(plain)], 'suffixes given as': 'tuple with AnsiStr items'}
                rep.count(payload, True)
                got, want = call(lambda: cls(t).endswith(tup)), call(lambda: t.endswith(plain))
                if got != want:
                    viol.append({'oracle': 'C10.endswith', 'case': payload, 'msg': 'endswith(%r) on %r gives %s, str.endswith(%r) gives %s' % (plain, t, got, plain, want)})
    # A method that no longer has the syntactic delegating shape is NOT an alarm by itself (a loop with setattr, a decorator or a
    # shared helper delegate just as well): the tie for these methods is the differential run above, which calls every one of
    # them on every generated text and compares with str.  The shape report is kept in the evidence.
    if changed:
        rep.notes.append('delegating shape not recognised (tie = differential run against str for these methods): %s' % sorted(set(m for (_, m, _) in changed)))
    return viol, []


def c10_replay(v, term):
    c = v['case']
    t, name, args = c['text'], c['method'], tuple(c['args'])
    s = c10_make(c.get('class', 'AnsiString'), t, c.get('settings', []))
    for (nm, a, exp, kind) in c10_calls(random.Random(0), t):
        pass
    if c.get('first argument given as'):
        args = ((AnsiStr(args[0], 'red') if 'red' in c['first argument given as'] else AnsiStr(args[0])),) + tuple(args[1:])
    got = call(lambda: getattr(s, name)(*args))
    args = tuple(c['args'])
    if name == 'center':
        want = call(lambda: format(t, '%s^%d' % (args[1], max(args[0], 0))) if args[0] > 0 else t)
    elif name == 'zfill':
        want = call(lambda: t.rjust(args[0], '0'))
    elif name == 'expandtabs':
        want = call(lambda: t.replace('\t', ' ' * args[0]))
    elif name in ('strip', 'lstrip', 'rstrip'):
        want = call(lambda: getattr(t, name)(' \t\n\r\v\f' if args[0] is None else args[0]))
    elif name == 'rpartition':
        want = call(lambda: (list(t.rpartition(args[0])) if args[0] in t else [t, '', '']))
    else:
        want = call(lambda: getattr(t, name)(*args))
    if got[0] == 'hang':
        return 'did not terminate'
    if got[0] != want[0]:
        return '%s vs str %s' % (got, want)
    if got[0] == 'err':
        return None if got[1] == want[1] else '%s vs str %s' % (got, want)
    g, w_ = got[1], want[1]
    if hasattr(g, 'base_str'):
        g = g.base_str
    elif isinstance(g, (list, tuple)) and g and hasattr(g[0], 'base_str'):
        g, w_ = [x.base_str for x in g], list(w_)
    return None if g == w_ else '%r vs str %r' % (g, w_)


# ====================================================================== C14
def spellings(name, rng):
    low = name.lower()
    return [name, low, low.replace('_', ' '), low.replace('_', '-'), ''.join(c.upper() if rng.random() < 0.5 else c for c in low),
            low.replace('_', ' ', 1)]


class Positional(tuple):
    """settings given as SEVERAL positional constructor arguments: AnsiString('x', *settings)"""


class ClassesDisagree(Exception):
    pass


def settings_of(form):
    s = AnsiString('x', *form) if isinstance(form, Positional) else AnsiString('x', form)
    out = [str(x) for x in s.ansi_settings_at(0)], str(s)
    # the immutable class takes the same spellings: its constructor must report the same
    t = AnsiStr('x', *form) if isinstance(form, Positional) else AnsiStr('x', form)
    out2 = [str(x) for x in t.ansi_settings_at(0)], t.to_str()
    if out2 != out or str.__str__(t) != out[1]:
        raise ClassesDisagree('AnsiStr gives %s (payload %r), AnsiString gives %s' % (out2, str.__str__(t), out))
    return out


def c14_run(rep, rng, tier, term):
    viol, div = [], []
    reqs, meta = [], []
    def check_equal(kind, ref_form, forms, payload):
        ref = call(lambda: settings_of(ref_form))
        if ref == ('err', 'ClassesDisagree'):
            try:
                settings_of(ref_form)
            except Exception as e:  # noqa
                viol.append({'oracle': 'C14.' + kind, 'case': dict(payload, form=repr(ref_form)), 'msg': 'the two classes disagree on %r: %s' % (ref_form, e)})
            return
        for f in forms:
            got = call(lambda: settings_of(f))
            p = dict(payload); p['form'] = repr(f)
            rep.count(p, True)
            if got != ref:
                viol.append({'oracle': 'C14.' + kind, 'case': p, 'msg': '%r gives %s, reference %r gives %s' % (f, got, ref_form, ref)})
                return
    names = list(AnsiFormat.__members__)
    pick = names if tier != 'quick' else (names[:120] + rng.sample(names, 150))
    # the same setting given in different spellings must behave the same through a history, not only on
    # a one-character string: apply it twice with overlapping ranges around a competing setting
    def scenario(form, other):
        s = AnsiString('0123456789')
        s.apply_formatting(form, 0, 8)
        s.apply_formatting(other, 2, 9)
        s.apply_formatting(form, 4, 6)
        s.apply_formatting(form, 1, 3, topmost=False)
        t = s[3:] + s[:3]
        return value_obs(s), value_obs(t)
    def check_scenario(kind, ref_form, forms, payload):
        other = AnsiFormat.BLUE if 'BLUE' not in str(payload) else AnsiFormat.GREEN
        ref = call(lambda: scenario(ref_form, other))
        for f in forms:
            got = call(lambda: scenario(f, other))
            p = dict(payload); p['form'] = repr(f); p['scenario'] = 'apply(X,0,8); apply(other,2,9); apply(X,4,6); apply(X,1,3,topmost=False); s[3:]+s[:3]'
            rep.count(p, True)
            if got != ref:
                viol.append({'oracle': 'C14.' + kind + '.history', 'case': p,
                             'msg': 'spelling %r behaves differently from %r when applied repeatedly: %s vs %s' % (f, ref_form, str(got)[:300], str(ref)[:300])})
                return
    for name in (names[:40] + rng.sample(names, 40 if tier == 'quick' else 400)):
        sp = spellings(name, rng)
        check_scenario('names', AnsiFormat[name], sp[:3] + [[sp[1]], AnsiFormat[name].ansi_settings[0] if len(AnsiFormat[name].ansi_settings) == 1 else sp[0]], {'name': name})
    for form_set in ([31, '31', '[31', [31], 'red'], [[38, 5, 214], '38;5;214', '[38;5;214', [38, [5, 214]], 'color256(214)', AnsiFormat.color256(214)],
                     [AnsiFormat.rgb(1, 2, 3), 'rgb(1,2,3)', 'rgb(0x010203)', [38, 2, 1, 2, 3], '38;2;1;2;3'],
                     [AnsiFormat.ul_rgb(1, 2, 3), 'ul_rgb(1,2,3)'], ['bold;italic', ['bold', 'italic'], [1, 3], ('bold', ['italic'])]):
        check_scenario('forms', form_set[0], form_set[1:], {'forms': repr(form_set)})
    for name in pick:
        sp = spellings(name, rng)
        check_equal('names', AnsiFormat[name], sp, {'name': name})
        for s in sp[:2]:
            reqs.append([7, [1, s]]); meta.append((s, call(lambda: settings_of(s))))
        reqs.append([7, [0, name]]); meta.append((('member', name), call(lambda: settings_of(AnsiFormat[name]))))
    rep.bump('names', len(pick))
    # integer codes as int / str / verbatim / list
    for c in range(0, 256):
        ref = call(lambda: settings_of(c))
        forms = [str(c), [c], (c,), [[c]]]
        if True:        # 0 included: AnsiString('x', 0) is the reset code like '0' and [0] (only apply_formatting(0) ignores a falsy argument)
            for f in forms:
                got = call(lambda: settings_of(f))
                rep.count({'code': c, 'form': repr(f)}, True)
                if got != ref:
                    viol.append({'oracle': 'C14.codes', 'case': {'code': c, 'form': repr(f)}, 'msg': 'code %d: %r gives %s, int gives %s' % (c, f, got, ref)})
                    break
            got = call(lambda: settings_of('[%d' % c))
            if ref[0] == 'ok' and got[0] == 'ok' and got[1][0] != ref[1][0]:
                viol.append({'oracle': 'C14.codes', 'case': {'code': c, 'form': '[%d' % c}, 'msg': 'verbatim differs: %s vs %s' % (got, ref)})
        reqs.append([7, [2, c]]); meta.append((c, ref if c else call(lambda: settings_of([c]))))
    # the same code through apply_formatting / remove_formatting as a BARE argument (0 is falsy as a Python value, but it is the
    # reset code like '0' and [0]), on both classes
    for c in list(range(0, 12)) + [31, 107, 255]:
        for clsname, cls in (('AnsiString', AnsiString), ('AnsiStr', AnsiStr)):
            def via_apply(f):
                s = cls('xyz')
                r = s.apply_formatting(f, 1, 2)
                s = r if cls is AnsiStr else s
                return [[str(x) for x in s.ansi_settings_at(i)] for i in range(3)], s.to_str()
            def via_remove(f):
                s = cls('xyz', 'bold', c, 'italic')
                r = s.remove_formatting(f, 1, 3)
                s = r if cls is AnsiStr else s
                return [[str(x) for x in s.ansi_settings_at(i)] for i in range(3)]
            ref, refr = call(lambda: via_apply([c])), call(lambda: via_remove([c]))
            for f in (c, str(c), (c,), '[%d' % c, AnsiSetting(c)):
                payload = {'code': c, 'class': clsname, 'form': repr(f), 'call': 'apply_formatting(form, 1, 2) / remove_formatting(form, 1, 3)'}
                rep.count(payload, True)
                got, gotr = call(lambda: via_apply(f)), call(lambda: via_remove(f))
                if got != ref or gotr != refr:
                    viol.append({'oracle': 'C14.codes.apply', 'case': payload,
                                 'msg': 'code %d given as %r: apply_formatting gives %s / remove_formatting leaves %s; given as [%d]: %s / %s' % (c, f, got, gotr, c, ref, refr)})
                    break
    # an integer that is not a plain int object (bool, IntEnum member) is the code of its VALUE, wherever an integer may stand
    import enum as _enum
    _IE = _enum.IntEnum('_IE', {'FIVE': 5})
    for (f, ref_form) in ((True, 1), (False, 0), ([38, 5, True], [38, 5, 1]), (Positional([38, 5, True]), [38, 5, 1]), ([48, 2, True, False, _IE.FIVE], [48, 2, 1, 0, 5]),
                          (_IE.FIVE, 5), (AnsiSetting(True), AnsiSetting(1)), (AnsiSetting([38, 5, True]), AnsiSetting('38;5;1')),
                          (AnsiFormat.color256(True), AnsiFormat.color256(1)), (AnsiFormat.rgb(True, False, True), AnsiFormat.rgb(1, 0, 1)),
                          (AnsiFormat.bg_rgb(_IE.FIVE, 0, True), AnsiFormat.bg_rgb(5, 0, 1)), (AnsiFormat.ul_color256(True), AnsiFormat.ul_color256(1))):
        check_equal('intkinds', ref_form, [f], {'integer kinds': repr(f)})
    # an AnsiStr given where a str is documented stands for its TEXT (its raw str value is its rendering, and it overrides ==)
    for (f, ref_form) in ((AnsiStr('bold'), 'bold'), (AnsiStr('bold', 'red'), 'bold'), (AnsiStr('31;4'), '31;4'), (AnsiStr('[38;5;1'), '[38;5;1'),
                          ([AnsiStr('rgb(1,2,3)'), 'italic'], ['rgb(1,2,3)', 'italic']), (Positional([AnsiStr('Dark Red'), 4]), ['dark red', 4]),
                          (AnsiSetting(AnsiStr('1', 'red')), AnsiSetting('1')), (AnsiSetting(AnsiStr('38;5;1')), AnsiSetting('38;5;1'))):
        check_equal('ansistr', ref_form, [f], {'AnsiStr as setting': repr(f)})
    for bad_f in (AnsiStr('nosuchname'), AnsiStr('rgb(1,2)', 'bold')):
        got = call(lambda: settings_of(bad_f))
        rep.count({'bad': 'AnsiStr(%r)' % bad_f.base_str}, True)
        if got != ('err', 'ValueError'):
            viol.append({'oracle': 'C14.errors', 'case': {'form': 'AnsiStr(%r)' % bad_f.base_str}, 'msg': 'AnsiStr(%r): %s, expected ValueError' % (bad_f.base_str, got)})
    # a directive is a code when it is made of decimal digits; blanks around it and leading zeros are tolerated
    for (txt, code) in ((' 31 ', 31), ('007', 7), ('31 ', 31), ('0031', 31), ('bold; 31', None)):
        if code is not None:
            check_equal('codes', code, [txt, [txt], 'bold;' + txt if False else txt], {'directive': txt})
    # groups
    groups = [[38, 5, 214], [48, 2, 1, 2, 3], [58, 5, 9], [1, 38, 5, 214], [4, 58, 2, 1, 2, 3], [31, 1], [38, 5, 214, 1], [1, 31, 4],
              # zero as palette index, colour component and reset code, in every position
              [38, 5, 0], [48, 5, 0, 1], [38, 2, 0, 9, 9], [38, 2, 9, 0, 9], [48, 2, 0, 0, 0], [21, 58, 2, 0, 0, 128], [1, 0], [0, 1], [0, 38, 5, 0, 0], [31, 0, 0]]
    for g in groups:
        flat = list(g)
        text = ';'.join(map(str, g))
        nest = [g[0], [g[1], [x for x in g[2:]]]] if len(g) > 2 else [g]
        check_equal('groups', flat, [text, tuple(flat), [flat], nest, [[x] for x in flat], Positional(flat), Positional([flat[0], flat[1:]])], {'codes': g})
        ra, rb = call(lambda: settings_of(flat)), call(lambda: (lambda a: ([str(x) for x in a.ansi_settings_at(0)], str(a)))(AnsiStr('x', *flat)))
        if ra != rb:
            viol.append({'oracle': 'C14.groups', 'case': {'codes': g, 'form': 'AnsiStr positional'}, 'msg': 'AnsiStr("x", *%s) gives %s, the list gives %s' % (flat, rb, ra)})
        reqs.append([7, form_wire(['list', [['int', x] for x in g]])]); meta.append((g, call(lambda: settings_of(flat))))
    # "flattened in order": an integer run contributes the same settings wherever it stands relative to non-integer
    # neighbours (every code 0..255, plus malformed / dangling colour groups), as int, decimal string and nested
    neigh = [('member', AnsiFormat.ITALIC, ['member', 'ITALIC']), ('name', 'underline', ['str', 'underline']),
             ('verbatim', '[1;31', ['str', '[1;31']), ('setting', AnsiSetting('34'), ['setting', '34'])]
    runs = [[c] for c in range(0, 256)] + [[0, 1], [38, 5, 0], [38, 2, 0, 0, 0], [0, 0], [38], [38, 7], [38, 5], [48, 2, 1], [99, 38, 5, 1], [38, 38, 5, 1], [73, 1], [1, 73], [58, 5, 1, 300]]
    for run in runs:
        alone = call(lambda: settings_of(list(run)))
        if alone[0] != 'ok':
            continue
        (kind, nb, nbw) = neigh[(run[0] + len(run)) % len(neigh)] if tier == 'quick' and len(run) == 1 else neigh[rng.randrange(len(neigh))]
        nb_alone = call(lambda: settings_of(nb))
        want = alone[1][0] + nb_alone[1][0]
        want2 = nb_alone[1][0] + alone[1][0]
        text = ';'.join(map(str, run))
        variants = [('run first', list(run) + [nb], want), ('run last', [nb] + list(run), want2), ('run nested first', [list(run), nb], want),
                    ('run as items of a tuple', tuple(run) + (nb,), want), ('between', [nb] + list(run) + [nb], nb_alone[1][0] + alone[1][0] + nb_alone[1][0])]
        if isinstance(nb, str) and not nb.startswith('['):
            variants.append(('decimal string with directive', text + ';' + nb, want))
            variants.append(('directive then decimal string', nb + ';' + text, want2))
        for (where, f, w) in variants:
            got = call(lambda: settings_of(f))
            payload = {'run': run, 'neighbour': kind, 'position': where, 'form': repr(f)}
            rep.count(payload, True)
            if got[0] != 'ok' or got[1][0] != w:
                viol.append({'oracle': 'C14.order', 'case': payload,
                             'msg': 'integer run %s %s (%r) reports %s; on its own it gives %s and the neighbour gives %s, so flattened in order: %s'
                                    % (run, where, f, got, alone[1][0], nb_alone[1][0], w)})
                break
        reqs.append([7, form_wire(['list', [['int', x] for x in run] + [nbw]])]); meta.append((['list', [['int', x] for x in run] + [nbw]], None))
    rep.bump('integer runs by position', len(runs))
    # rgb / color256 helpers and their string forms
    comps = [('', 'rgb', AnsiFormat.rgb, AnsiFormat.color256), ('fg_', 'fg_rgb', AnsiFormat.fg_rgb, AnsiFormat.fg_color256),
             ('bg_', 'bg_rgb', AnsiFormat.bg_rgb, AnsiFormat.bg_color256), ('ul_', 'ul_rgb', AnsiFormat.ul_rgb, AnsiFormat.ul_color256),
             ('dul_', 'dul_rgb', AnsiFormat.dul_rgb, AnsiFormat.dul_color256)]
    vals = [(0, 0, 0), (255, 255, 255), (1, 2, 3), (300, -5, 256), (16, 32, 48), (255, 0, 128)]
    for (pre, nm, frgb, f256) in comps:
        for (r_, g_, b_) in vals:
            ref = frgb(r_, g_, b_)
            cl = lambda x: min(255, max(0, x))
            forms = []
            if min(r_, g_, b_) >= 0:
                forms += ['%srgb(%d,%d,%d)' % (pre, r_, g_, b_), '%srgb( %d , %d , %d )' % (pre, r_, g_, b_), '%srgb([%d,%d,%d])' % (pre, r_, g_, b_),
                          '%srgb(0x%X, 0x%x, %d)' % (pre, r_, g_, b_), '%srgb((%d,%d,%d))' % (pre, r_, g_, b_)]
            check_equal('rgb', ref, forms, {'helper': nm, 'args': [r_, g_, b_]})
            exp_tail = '2;%d;%d;%d' % (cl(r_), cl(g_), cl(b_))
            got = [str(x) for x in ref]
            lead = {'': ['38;'], 'fg_': ['38;'], 'bg_': ['48;'], 'ul_': ['4', '58;'], 'dul_': ['21', '58;']}[pre]
            want = lead[:-1] + [lead[-1] + exp_tail]
            rep.count({'helper': nm, 'args': [r_, g_, b_], 'check': 'value'}, True)
            if got != want:
                viol.append({'oracle': 'C14.rgb', 'case': {'helper': nm, 'args': [r_, g_, b_]}, 'msg': '%s%r = %s, expected %s (clamped)' % (nm, (r_, g_, b_), got, want)})
            for f in forms[:2]:
                reqs.append([7, [1, f]]); meta.append((f, call(lambda: settings_of(f))))
        for v24 in (0, 0xFFFFFF, 0x102030, 0xFF0080):
            ref = frgb(v24)
            check_equal('rgb24', ref, ['%srgb(0x%06X)' % (pre, v24), '%srgb(%d)' % (pre, v24)], {'helper': nm, 'value': v24})
            got = [str(x) for x in ref][-1]
            if not got.endswith('2;%d;%d;%d' % (v24 >> 16, (v24 >> 8) & 255, v24 & 255)):
                viol.append({'oracle': 'C14.rgb24', 'case': {'helper': nm, 'value': v24}, 'msg': '24-bit split gives %s' % got})
        for v in (0, 7, 255, 16):
            ref = f256(v)
            check_equal('color256', ref, ['%scolor256(%d)' % (pre, v), '%scolour256(0x%x)' % (pre, v), '%scolor256( %d )' % (pre, v), '%scolor256([%d])' % (pre, v)],
                        {'helper': nm + '256', 'value': v})
            reqs.append([7, [1, '%scolor256(%d)' % (pre, v)]]); meta.append(('%scolor256(%d)' % (pre, v), call(lambda: settings_of(ref))))
    # the British-spelling helper functions are the same helpers (function aliases, not only the string forms)
    from ansi_string.ansi_format import ColorComponentType as _CCT
    for v in (0, 7, 16, 255):
        for a, b in (('color256', 'colour256'), ('fg_color256', 'fg_colour256'), ('bg_color256', 'bg_colour256'),
                     ('ul_color256', 'ul_colour256'), ('dul_color256', 'dul_colour256')):
            ra, rb = call(lambda: settings_of(getattr(AnsiFormat, a)(v))), call(lambda: settings_of(getattr(AnsiFormat, b)(v)))
            rep.count({'helper': a, 'alias': b, 'value': v}, True)
            if ra != rb:
                viol.append({'oracle': 'C14.color256', 'case': {'helper': a, 'alias': b, 'value': v}, 'msg': 'AnsiFormat.%s(%d) gives %s, AnsiFormat.%s gives %s' % (a, v, ra, b, rb)})
        for comp, nm in ((_CCT.FOREGROUND, 'fg_'), (_CCT.BACKGROUND, 'bg_'), (_CCT.UNDERLINE, 'ul_'), (_CCT.DOUBLE_UNDERLINE, 'dul_')):
            ra = call(lambda: settings_of(AnsiFormat.colour256(v, comp)))
            rb = call(lambda: settings_of(getattr(AnsiFormat, nm + 'color256')(v)))
            rc = call(lambda: settings_of(AnsiFormat.rgb(v, v + 1, 3, comp)))
            rd = call(lambda: settings_of(getattr(AnsiFormat, nm + 'rgb')(v, v + 1, 3)))
            rep.count({'helper': 'colour256/rgb with component', 'component': nm, 'value': v}, True)
            if ra != rb or rc != rd:
                viol.append({'oracle': 'C14.color256', 'case': {'component': nm, 'value': v},
                             'msg': 'component argument and %s helpers disagree: %s vs %s ; %s vs %s' % (nm, ra, rb, rc, rd)})
    # several directives in one string, nestings and mixtures
    g = Gen(rng, odd=False)
    for _ in range(400 if tier == 'quick' else 20000):
        parts = [rng.choice(NAME_FORMS + ['1', '31', '38;5;214', 'rgb(1,2,3)', 'bg_color256(7)']) for _ in range(rng.randint(1, 4))]
        flat = list(parts)
        joined = ';'.join(parts)
        nested = [parts[0], parts[1:]] if len(parts) > 1 else [parts]
        check_equal('flatten', flat, [joined, tuple(flat), nested, [[p] for p in parts], Positional(flat)], {'directives': parts})
        f = g.form()
        reqs.append([7, form_wire(f)]); meta.append((f, None))
    # errors
    bad = [('rgb()1,2,3)', 'ValueError'), ('rgb(1,2,3))', 'ValueError'), ('rgb(1,2,3])', 'ValueError'), ('rgb([1,2,3)', 'ValueError'), ('rgb((1,2,3)', 'ValueError'),
           ('rgb((1,2,3])', 'ValueError'), ('rgb([1,2,3))', 'ValueError'), ('bg_rgb()0x102030])', 'ValueError'), ('color256()7)', 'ValueError'),
           ('ul_colour256([7)', 'ValueError'), ('dul_color256(7])', 'ValueError'), ('rgb(1,2,3)\n', 'ValueError'), ('color256(7)\n', 'ValueError'),
           ('rgb(0x102030)\n', 'ValueError'), ('rgb([1,2,3]', 'ValueError'), ('rgb(1,2,3', 'ValueError'), ('rgb)1,2,3(', 'ValueError'),
           ('1_0', 'ValueError'), ('+1', 'ValueError'), ('-0', 'ValueError'), ('\uff13\uff11', 'ValueError'), ('\u0663', 'ValueError'), ('bold;3_1', 'ValueError'), ('1.0', 'ValueError'), ('1e1', 'ValueError'),
           # the function directives are lower case only (member NAMES match in any case; rgb / color256 and their prefixes do not)
           ('BG_rgb(1,2,3)', 'ValueError'), ('Bg_rgb(1,2,3)', 'ValueError'), ('UL_colour256(200)', 'ValueError'), ('DUL_rgb(1,2,3)', 'ValueError'), ('RGB(1,2,3)', 'ValueError'),
           ('Rgb(0x010203)', 'ValueError'), ('rgb(0XFF)', 'ValueError'), ('Color256(7)', 'ValueError'), ('fg_RGB(1,2,3)', 'ValueError'), ('bg_COLOUR256(7)', 'ValueError'),
           # names are ASCII: letters that str.upper() maps onto ASCII ones (dotless i, sharp s, long s, ligatures) do not spell a name
           ('\u0131talic', 'ValueError'), ('cro\u00dfed_out', 'ValueError'), ('\u017flow_blink', 'ValueError'), ('fg_\ufb02oral_white', 'ValueError'),
           ('bold;\u0131talic', 'ValueError'), ('bg_mi\ufb06y_rose', 'ValueError'),
           ('nosuchname', 'ValueError'), (-1, 'ValueError'), ('rgb(1,2)', 'ValueError'), ('rgb(zz)', 'ValueError'), ('rgb(1,2,x)', 'ValueError'),
           ('color256(g)', 'ValueError'), (1.5, 'TypeError'), (None, 'TypeError'), ([None], 'TypeError'), (0.0, 'TypeError'), ([0.0], 'TypeError'), ({}, 'TypeError'), ([{}], 'TypeError'),
           (b'', 'TypeError'), ([b''], 'TypeError'), (b'red', 'TypeError'), (['bold', None], 'TypeError'), (Positional(['bold', None]), 'TypeError'), (set(), 'TypeError'), ({'a': 1}, 'TypeError'), (['red', 2.5], 'TypeError'), ('-3', 'ValueError'),
           ('bold;nosuch', 'ValueError'), ([[-2]], 'ValueError')]
    for f, want in bad:
        if want == 'skip':
            continue
        got = call(lambda: settings_of(f))
        rep.count({'bad': repr(f)}, True)
        if got != ('err', want):
            viol.append({'oracle': 'C14.errors', 'case': {'form': repr(f)}, 'msg': '%r: %s, expected %s' % (f, got, want)})
    l = ['red']; l.append(l)
    got = call(lambda: settings_of(l))
    if got != ('err', 'ValueError'):
        viol.append({'oracle': 'C14.errors', 'case': {'form': 'list containing itself'}, 'msg': 'self-containing list: %s' % (got,)})
    # ---- correspondence with the model's scrubber
    answers = model.ask(reqs, chunk=4000)
    for (f, ref), a in zip(meta, answers):
        if ref is None:
            try:
                ref = call(lambda: settings_of(form_py(f)))
            except Exception:  # noqa
                continue
        m = ('ok', [to_str(x) for x in a[1]]) if a[0] == 0 else ('err', {1: 'TypeError', 2: 'ValueError', 3: 'IndexError'}[a[1]])
        r = ('ok', ref[1][0]) if ref[0] == 'ok' else ref
        if m != r:
            # apply_formatting ignores a falsy argument before scrubbing (0, '', []): not a scrubber difference
            if ref[0] == 'ok' and ref[1][0] == [] and m[0] == 'ok':
                continue
            if isinstance(f, int) and f == 0:
                continue
            div.append({'case': {'form': repr(f)}, 'what': 'scrub', 'impl': r, 'model': m})
    return viol, div


def c14_replay(v, term):
    """the recorded case under its oracle, found again by rerunning the (deterministic) exploration"""
    return generic_case_replay(c14_run)(v, term)


# ====================================================================== C15
def independent_valid(t):
    return not any(0x40 <= ord(c) <= 0x7e for c in t)


KNOWN_SINGLE = set(range(1, 30)) | set(range(30, 38)) | {39} | set(range(40, 48)) | {49, 50, 51, 52, 53, 54, 55, 59} | set(range(90, 98)) | set(range(100, 108))


def independent_parsable(t):
    """one complete known SGR parameter group other than reset, strict decimal grammar"""
    if not re.fullmatch(r'[0-9]+(;[0-9]+)*', t):
        return False
    cs = [int(x) for x in t.split(';')]
    if any(c > 255 for c in cs):
        return False
    if len(cs) == 1:
        return cs[0] in KNOWN_SINGLE
    if cs[0] in (38, 48, 58):
        return (len(cs) == 3 and cs[1] == 5) or (len(cs) == 5 and cs[1] == 2)
    return False


def c15_run(rep, rng, tier, term):
    viol, div = [], []
    viol += c15_interrupted_flags()
    rep.bump('flag queries interrupted by an exception', 3)
    alpha = ['0', '1', '3', '5', '8', ';', ' ', '+', 'm', '2']
    cases = []
    for n in range(1, 5 if tier == 'quick' else 6):
        for tup in itertools.product(alpha[:9] if n > 3 else alpha, repeat=n):
            cases.append(''.join(tup))
    more = ['\uff13\uff11', '\u0663', '3\uff11', '38;5;\u0661', '\U0001d7d1', '\u00b2', '38;5;214', '38;2;1;2;3', '48;5;0', '58;2;255;255;255', '38;5;256', '38;2;1;2', '38;5', '38', '0', '00', '01', '007', '1;31', '99',
            '22', '107', '108', '56', '57', '60', '4;58;5;1', '38;5;1;1', ' 1', '1 ', '+1', '-1', '1_0', '１', '٣', '1;', ';1', ';', '[1', 'a', '~', '@', '?', '38;3;1',
            '58;5;7', '58;2;0;0;0', '48;2;0;0;256', '255', '256', '1.0', '1e1', '0x1', '\x7f', 'é1']
    # structured: every extended-colour group shape with boundary values at every position (in range, just out of
    # range, far out of range, zero-padded), complete, truncated and over-long; every single code up to 300
    bv = ['0', '7', '255', '256', '999', '0256']
    for intro in ('38', '48', '58'):
        for mode, maxargs in (('2', 4), ('5', 2), ('3', 1), ('256', 1)):
            for k in range(maxargs + 1):
                for tup in itertools.product(bv, repeat=k):
                    cases.append(';'.join((intro, mode) + tup))
    cases += [str(c) for c in range(0, 301)]
    cases += more + [''.join(rng.choice('0123456789;;; +m') for _ in range(rng.randint(1, 12))) for _ in range(2000 if tier == 'quick' else 50000)]
    answers = model.ask([[6, t] for t in cases], chunk=6000)
    for t, a in zip(cases, answers):
        payload = {'text': t}
        rep.count(payload, len(t) > 1)
        s1, s2 = AnsiSetting(t), AnsiSetting(t)
        v1, p1 = s1.valid, s1.parsable
        p2, v2 = s2.parsable, s2.valid          # other order, and cached values
        if (v1, p1) != (v2, p2) or (s1.valid, s1.parsable) != (v1, p1):
            viol.append({'oracle': 'C15.cache', 'case': payload, 'msg': 'flags depend on evaluation order / caching: %s %s' % ((v1, p1), (v2, p2))})
        if v1 != independent_valid(t):
            viol.append({'oracle': 'C15.valid', 'case': payload, 'msg': 'valid(%r) = %s, independent grammar says %s' % (t, v1, independent_valid(t))})
        if p1 != independent_parsable(t):          # non-ASCII digits, spaces, signs are not SGR parameter bytes either
            viol.append({'oracle': 'C15.parsable', 'case': payload, 'msg': 'parsable(%r) = %s, independent grammar says %s' % (t, p1, independent_parsable(t))})
        if t.isascii() and (bool(a[0]), bool(a[1])) != (v1, p1):
            div.append({'case': payload, 'what': 'valid/parsable', 'impl': [v1, p1], 'model': [bool(a[0]), bool(a[1])]})
    # the flags belong to the TEXT: the same text reached through the other constructor forms (list / tuple of pieces,
    # ints, a copy of a setting whose flags were or were not evaluated yet) carries the same flags
    pick = [t for t in cases if t and t.isascii()]
    pick = pick[::max(1, len(pick) // (1500 if tier == 'quick' else 20000))] + [t for t in more if t and t.isascii()] + ['1;4m', '4m;1', 'H', '1~', '1;@', '31;1']
    for t in pick:
        forms = []
        parts = t.split(';')
        forms.append(('list of str', lambda: AnsiSetting(list(parts))))
        forms.append(('tuple of str', lambda: AnsiSetting(tuple(parts))))
        if all(p.isdigit() for p in parts):
            forms.append(('list of int', lambda: AnsiSetting([int(p) for p in parts])))
            if len(parts) == 1:
                forms.append(('int', lambda: AnsiSetting(int(parts[0]))))
        def copy_after():
            a = AnsiSetting(t); a.valid; a.parsable
            return AnsiSetting(a)
        def copy_of_list_form():
            a = AnsiSetting(list(parts)); a.valid
            return AnsiSetting(a)
        forms += [('copy (flags evaluated before)', copy_after), ('copy (flags not evaluated)', lambda: AnsiSetting(AnsiSetting(t))),
                  ('copy of the list form', copy_of_list_form)]
        for fname, mk in forms:
            r = call(mk)
            payload = {'text': t, 'constructor': fname}
            rep.count(payload, True)
            if r[0] != 'ok':
                continue            # an empty text is refused by the constructor
            st = r[1]
            tx = str(st)
            if st.valid != independent_valid(tx) or st.parsable != independent_parsable(tx):
                viol.append({'oracle': 'C15.constructor', 'case': payload,
                             'msg': 'AnsiSetting built as %s has text %r with valid=%s parsable=%s; the text alone gives valid=%s parsable=%s'
                                    % (fname, tx, st.valid, st.parsable, independent_valid(tx), independent_parsable(tx))})
                break
    # generated settings are valid and parsable
    for name, m in AnsiFormat.__members__.items():
        rep.count({'member': name}, True)
        for st in m.ansi_settings:
            if not (st.valid and st.parsable):
                viol.append({'oracle': 'C15.generated', 'case': {'member': name}, 'msg': 'member %s has setting %r valid=%s parsable=%s' % (name, str(st), st.valid, st.parsable)})
        if name in AnsiFormat.__members__ and rng.random() < (0.3 if tier == 'quick' else 1.0):
            s = AnsiString('x', name.lower())
            if not (s.is_formatting_valid() and s.is_formatting_parsable()):
                viol.append({'oracle': 'C15.generated', 'case': {'name': name}, 'msg': 'name %s not valid/parsable' % name})
    for c in sorted(KNOWN_SINGLE):
        s = AnsiString('x', c)
        rep.count({'code': c}, True)
        if not (s.is_formatting_valid() and s.is_formatting_parsable()):
            viol.append({'oracle': 'C15.generated', 'case': {'code': c}, 'msg': 'known code %d not valid/parsable' % c})
    for f in (AnsiFormat.rgb(1, 2, 3), AnsiFormat.bg_rgb(300, -1, 5), AnsiFormat.ul_rgb(0x102030), AnsiFormat.dul_color256(255), AnsiFormat.fg_color256(0)):
        s = AnsiString('x', f)
        if not (s.is_formatting_valid() and s.is_formatting_parsable()):
            viol.append({'oracle': 'C15.generated', 'case': {'helper': [str(x) for x in f]}, 'msg': 'helper result not valid/parsable'})
    # conjunction over the settings in use
    for (o, ops, i) in impl.build_values(rng, 150 if tier == 'quick' else 5000, odd=True):
        used = set(str(s) for k in range(len(o.base_str)) for s in o.ansi_settings_at(k))
        rep.count({'history': ops, 'object': i, 'check': 'conjunction'}, len(used) > 1)
        ev = all(AnsiSetting(t).valid for t in used)
        ep = all(AnsiSetting(t).parsable for t in used)
        # settings that never cover a character are "in use" only in the table; the flags may be False for them
        if o.is_formatting_valid() and not ev:
            viol.append({'oracle': 'C15.conj', 'case': {'history': ops, 'object': i}, 'msg': 'is_formatting_valid() True with an invalid setting in use'})
        if o.is_formatting_parsable() and not ep:
            viol.append({'oracle': 'C15.conj', 'case': {'history': ops, 'object': i}, 'msg': 'is_formatting_parsable() True with an unparsable setting in use'})
    return viol, div


def c15_interrupted_flags():
    """the memoised flags of a setting survive an interrupted computation: an exception that arrives while `valid` / `parsable` is
    being computed (here: from a signal handler) must not leave a wrong answer behind - settings are shared between copies"""
    import signal
    class _Interrupt(Exception):
        pass
    def handler(signum, frame):
        raise _Interrupt()
    out = []
    for (tail, want) in ((';31', (True, False)), ('', (True, False)), (';31A', (False, False))):
        st = AnsiSetting(';'.join(['1'] * 600000) + tail)
        holder = AnsiString('abc', st)
        old = signal.signal(signal.SIGALRM, handler)
        interrupted = False
        try:
            signal.setitimer(signal.ITIMER_REAL, 0.004)
            try:
                holder.is_formatting_parsable()
            except _Interrupt:
                interrupted = True
        finally:
            signal.setitimer(signal.ITIMER_REAL, 0)
            signal.signal(signal.SIGALRM, old)
        if not interrupted:
            continue          # the machine was too fast this time: nothing learnt
        got = (holder.is_formatting_valid(), holder.is_formatting_parsable())
        cp = AnsiString(holder)
        got2 = (cp.is_formatting_valid(), cp.is_formatting_parsable())
        if got != want or got2 != want:
            out.append({'oracle': 'C15.flags.interrupted', 'case': {'setting': "600000 x '1;' + %r" % tail.lstrip(';'), 'interrupted': 'is_formatting_parsable() by an exception from a signal handler'},
                        'msg': 'after an interrupted first query (valid, parsable) = %s, on a copy %s; the text gives %s' % (got, got2, want)})
    return out


def c15_replay(v, term):
    c = v.get('case', {})
    if 'text' in c:
        t = c['text']
        s = AnsiSetting(t)
        if s.valid != independent_valid(t):
            return 'valid(%r) = %s' % (t, s.valid)
        if t.isascii() and s.parsable != independent_parsable(t):
            return 'parsable(%r) = %s' % (t, s.parsable)
    return None


# ====================================================================== C16
C16_PATTERNS = [('a', False), ('ab', False), ('A', False), ('b+', True), ('a*', True), ('.', False), ('.', True), ('(a|b)b', True),
                ('', False), ('[ab]', True), ('a.b', False), (' ', False), (r'\b', True), ('a|', True), ('(?=b)', True), ('B', False), ('a+?', True),
                ('^', True), ('$', True), ('[', False), ('(', False), ('*', False), ('\\', False)]


def unobservable_violations(prop, ops_of_interest):
    """values built by successful public operations that can no longer be queried: a violation of the property
    whose operation comes last in the history (when it is one of ops_of_interest), else not this property's"""
    out = []
    for u in impl.drain_unobservable():
        last = u['history'][-1][0] if u['history'] else ''
        names = [op[0] for op in u['history']]
        if any(n in ops_of_interest for n in names):
            out.append({'oracle': prop + '.observe', 'case': {'history': u['history'], 'object': u['object']},
                        'msg': 'a value built by successful operations (%s) can no longer be read: %s' % (', '.join(names), u['error'])})
    return out[:3]


def c16_run(rep, rng, tier, term):
    viol = []
    g = Gen(rng, odd=False)
    vals = impl.build_values(rng, 300 if tier == 'quick' else 6000, odd=False, kinds=(0, 0, 1))
    impl.drain_unobservable()
    for (o, ops, i) in vals:
        is_str = not isinstance(o, AnsiString)        # AnsiStr: the method returns a new value
        for _ in range(6 if tier == 'quick' else 8):
            base = o.base_str
            pts = [k for k in (o._s if is_str else o)._fmts if 0 < k < len(base)]
            if pts and rng.random() < 0.45:
                # a match that straddles a style change point (settings start or stop strictly inside it)
                k = rng.choice(pts)
                a_, b_ = max(0, k - rng.choice([1, 1, 2])), min(len(base), k + rng.choice([1, 1, 2, 3]))
                pat, regex = base[a_:b_], False
            elif rng.random() < 0.4 and base:
                k = rng.randrange(len(base)); pat, regex = base[k:k + rng.choice([1, 2, 3])], False
            else:
                pat, regex = rng.choice(C16_PATTERNS)
            if not regex and pat and rng.random() < 0.3:
                # the literal occurs only with another letter case (matching ignores case unless match_case=True)
                pat = pat.swapcase() if rng.random() < 0.5 else pat.upper()
            if pat and '\x1b' not in pat and rng.random() < 0.15:
                # an AnsiStr is a str and may be the pattern, literal or regular expression, with metacharacters or without; it
                # stands for its TEXT (its raw str value is its rendering) - also when it is formatted itself
                pat = AnsiStr(pat) if rng.random() < 0.6 else AnsiStr(pat, 'red')
            mc = rng.random() < 0.5
            cnt = rng.choice([-1, -1, 0, 1, 2, 3])
            un = rng.random() < 0.4
            if un:
                kind = rng.random()
                forms = [] if kind < 0.2 else ([None] if kind < 0.35 else [form_py(g.simple_form()) for _ in range(rng.randint(1, 2))])
                if forms and rng.random() < 0.5 and base:
                    ss = o.ansi_settings_at(rng.randrange(len(base)))
                    if ss:
                        forms = ['[' + str(rng.choice(ss))]
            else:
                forms = [form_py(g.simple_form()) for _ in range(rng.randint(0, 2))]
            ptext = pat.base_str if isinstance(pat, AnsiStr) else pat
            payload = {'history': ops, 'object': i, 'method': 'unformat_matching' if un else 'format_matching', 'pattern': ptext,
                       'pattern_class': type(pat).__name__ + (' (formatted)' if isinstance(pat, AnsiStr) and str.__str__(pat) != ptext else ''), 'regex': regex,
                       'match_case': mc, 'count': cnt, 'format': [repr(f) for f in forms]}
            rep.count(payload, len((o._s if is_str else o)._fmts) >= 2)
            rep.bump(('AnsiStr.' if is_str else '') + ('unformat' if un else 'format'))
            c1, c2 = (o if is_str else AnsiString(o)), AnsiString(o)
            r1 = call(lambda: (c1.unformat_matching if un else c1.format_matching)(pat, *forms, regex=regex, match_case=mc, count=cnt))
            if is_str and r1[0] == 'ok':
                c1 = r1[1]                               # the returned AnsiStr carries the result
            def loop():
                p = ptext if regex else re.escape(ptext)
                n = cnt
                for m in re.finditer(p, c2.base_str, 0 if mc else re.IGNORECASE):
                    if n == 0:
                        break
                    if un:
                        c2.remove_formatting((None if (not forms or None in forms) else forms), m.start(), m.end())
                    else:
                        c2.apply_formatting(forms, m.start(), m.end())
                    if n > 0:
                        n -= 1
            r2 = call(loop)
            if r1[0] != r2[0] or (r1[0] == 'err' and r1[1] != r2[1]):
                viol.append({'oracle': 'C16.result', 'case': payload, 'msg': 'method %s, explicit loop %s' % (r1, r2)})
                continue
            if r1[0] != 'ok':
                continue
            if value_obs(c1) != value_obs(c2):
                viol.append({'oracle': 'C16.state', 'case': payload, 'msg': 'state differs from the explicit apply/remove loop: %s vs %s' % (describe(c1), describe(c2))})
            if c1.base_str != o.base_str:
                viol.append({'oracle': 'C16.text', 'case': payload, 'msg': 'text changed'})
    # an (unformatted) AnsiStr is a str and may be the pattern, literal or regular expression
    for regex in (False, True):
        for cls in (AnsiString, AnsiStr):
            payload = {'text': 'abab', 'pattern': "AnsiStr('b')", 'regex': regex, 'class': cls.__name__}
            rep.count(payload, True)
            src = AnsiString('abab', 'red')
            c1, c2 = cls(src), AnsiString(src)
            r1 = call(lambda: c1.format_matching(AnsiStr('b'), 'bold', regex=regex))
            res = r1[1] if (cls is AnsiStr and r1[0] == 'ok') else c1
            for m in re.finditer('b', 'abab', re.IGNORECASE):
                c2.apply_formatting('bold', m.start(), m.end())
            if r1[0] != 'ok' or value_obs(res) != value_obs(c2):
                viol.append({'oracle': 'C16.state', 'case': payload, 'msg': 'format_matching(AnsiStr pattern): %s, explicit loop %s' % (describe(res) if r1[0] == 'ok' else r1, describe(c2))})
    # characters on which str.lower() / casefold() and re.IGNORECASE disagree, or whose lower-case form has another length
    for text in ('\u0130zmir is big', '\u039f\u0394\u039f\u03a3 \u03bf\u03b4\u03bf\u03c2', 'Mi\u017f\u017fi\u017f\u017fippi', 'stra\u00dfe STRASSE', 'a\u212ab K k', '\ufb01sh FISH'):
        for spec in sorted(set([text[1:3], text[-3:], text[-3:].upper(), text[:2].lower(), 'IS', 'ss', 'SS', 'k', '\u03bf\u03b4\u03bf\u03c3', 'fi', 's'])):
            for mc in (False, True):
                for un in (False, True):
                    for cls in (AnsiString, AnsiStr):
                        payload = {'text': text, 'pattern': spec, 'match_case': mc, 'method': 'unformat_matching' if un else 'format_matching', 'class': cls.__name__}
                        rep.count(payload, True)
                        src = AnsiString(text, 'bold'); src.apply_formatting('red', 2, 9)
                        c1, c2 = cls(src), AnsiString(src)
                        r1 = call(lambda: (c1.unformat_matching(spec, 'red', match_case=mc) if un else c1.format_matching(spec, 'bg_blue', match_case=mc)))
                        res = r1[1] if (cls is AnsiStr and r1[0] == 'ok') else c1
                        for m in re.finditer(re.escape(spec), text, 0 if mc else re.IGNORECASE):
                            (c2.remove_formatting('red', m.start(), m.end()) if un else c2.apply_formatting('bg_blue', m.start(), m.end()))
                        if r1[0] != 'ok' or value_obs(res) != value_obs(c2):
                            viol.append({'oracle': 'C16.state', 'case': payload,
                                         'msg': 'state differs from the explicit loop over the re matches: %s vs %s' % (describe(res) if r1[0] == 'ok' else r1, describe(c2))})
    return viol, []


# ====================================================================== C02 / C03
SEQ_CODES = ['0', '', '1', '2', '22', '3', '23', '4', '21', '24', '31', '34', '39', '41', '49', '38;5;214', '38;2;1;2;3', '48;5;21', '58;5;9', '59',
             '99', '38;5', '38', '38;5;256', '10', '11', '53', '55', '1;31', '0;1', '31;0', '1;38;5;214;4', '2;', ';2', '1;;31', '38;5;1;48;5;2', '5', '25', '7', '27', '51', '54',
             '90', '107', '38;2;1;2', '108', '300']
NON_SGR = ['\x1b[2J', '\x1b[1;2H', '\x1b[', '\x1b[1', '\x1b', '\x1b[?25l', '\x1b]0;t\x07', '\x1b[1 m',
           # final bytes at both ends of the range 0x40-0x7E, bracketed paste / function keys
           '\x1b[3~', '\x1b[200~', '\x1b[201~', '\x1b[1@', '\x1b[@', '\x1b[~', '\x1b[5}', '\x1b[2`', '\x1b[15~', '\x1b[1;5A']


def ansi_input(rng):
    parts = []
    for _ in range(rng.randint(0, 6)):
        k = rng.random()
        if k < 0.45:
            parts.append(''.join(rng.choice('ab c') for _ in range(rng.randint(0, 3))))
        elif k < 0.9:
            parts.append('\x1b[' + ';'.join(rng.choice(SEQ_CODES) for _ in range(rng.choice([1, 1, 1, 2, 3]))) + 'm')
        elif k < 0.96:
            parts.append(rng.choice(NON_SGR) + (rng.choice(['', '\x1b[31m', '\x1b[1m', ' 12 m', 'x']) if rng.random() < 0.5 else ''))
        else:
            parts.append('\x1b[' + rng.choice([' 1', '1 ', '+1', 'x', '1;x']) + 'm')
    return ''.join(parts)


NUMERIC_SGR = re.compile('\x1b\\[[0-9;]*m')
CSI_RE = re.compile('\x1b\\[([^\x40-\x7e]*)([\x40-\x7e]?)')


def strip_sgr(w):
    """w with exactly its SGR sequences removed.  Control sequences are read left to right with the
    grammar the library documents (ESC [, any characters outside 0x40-0x7E, one final byte); a sequence
    is SGR when its final byte is 'm'.  Everything else, other control sequences included, is kept."""
    return CSI_RE.sub(lambda m: '' if m.group(2) == 'm' else m.group(0), w)


def c02_check(term, w, viol, payload):
    r = call(lambda: AnsiString(w))
    if r[0] != 'ok':
        viol.append({'oracle': 'C02.construct', 'case': payload, 'msg': 'AnsiString(%r) %s' % (w, r)})
        return
    s = r[1]
    exp_text = strip_sgr(w)
    if s.base_str != exp_text:
        viol.append({'oracle': 'C02.text', 'case': payload, 'msg': 'base_str %r, input without its SGR sequences is %r' % (s.base_str, exp_text)})
        return
    if '\x1b' not in w:
        if any(s.ansi_settings_at(i) for i in range(len(w))):
            viol.append({'oracle': 'C02.plain', 'case': payload, 'msg': 'text without escapes got settings'})
        return
    # control sequences that are not SGR stay in the text AS CHARACTERS: the codes of every SGR sequence apply from the same
    # character on as when each such sequence is replaced by as many ordinary characters
    w2 = CSI_RE.sub(lambda m: m.group(0) if m.group(2) == 'm' else 'Z' * len(m.group(0)), w)
    if w2 != w:
        r2 = call(lambda: AnsiString(w2))
        if r2[0] == 'ok' and len(r2[1].base_str) == len(exp_text):
            for i in range(len(exp_text)):
                a, b = [str(x) for x in s.ansi_settings_at(i)], [str(x) for x in r2[1].ansi_settings_at(i)]
                if a != b:
                    viol.append({'oracle': 'C02.position', 'case': payload,
                                 'msg': 'character %d (%r) reports %s; with the non-SGR sequences replaced by ordinary characters (%r) the same character reports %s'
                                        % (i, exp_text[i], a, w2, b)})
                    return
    # the style clause is about inputs whose SGR sequences have numeric bodies and whose remaining
    # text does not itself contain ESC (otherwise the terminal and the library tokenise differently: K1)
    if SGR_RE.sub('', NUMERIC_SGR.sub('', w)) != NUMERIC_SGR.sub('', w) or '\x1b' in exp_text:
        return
    run = term.run(w)
    if run is None:
        for i in range(len(exp_text)):
            term.style([str(x) for x in s.ansi_settings_at(i)])
        return
    chars, states, fin = run
    if chars != exp_text:
        return      # specification terminal displays something else (should not happen for this class)
    for i in range(len(exp_text)):
        st = term.style([str(x) for x in s.ansi_settings_at(i)])
        if st is None:
            continue
        if st != states[i]:
            viol.append({'oracle': 'C02.style', 'case': payload,
                         'msg': 'character %d reports %s = %s, a terminal shows %s' % (i, [str(x) for x in s.ansi_settings_at(i)], st, states[i])})
            return


def c02_run(rep, rng, tier, term):
    viol, div = [], []
    n = 4000 if tier == 'quick' else 150000
    inputs = [ansi_input(rng) for _ in range(n)]
    # systematic: every code of the palette after every other code, in one sequence and in two
    for a in SEQ_CODES:
        for b in SEQ_CODES[:24 if tier == 'quick' else len(SEQ_CODES)]:
            inputs.append('x\x1b[%s;%sm' % (a, b) + 'y')
            inputs.append('\x1b[%sma\x1b[%smb' % (a, b))
    def go():
        del viol[:]
        for w in inputs:
            c02_check(term, w, viol, {'input': w})
    term.two_phase(go)
    for w in inputs:
        rep.count({'input': w}, w.count('\x1b[') >= 2)
        rep.bump('sequences:%d' % min(w.count('\x1b['), 6))
    # correspondence through the history machinery (constructor on ANSI input), both classes
    from . import corr
    cases = []
    for k, w in enumerate(inputs[:1500 if tier == 'quick' else 40000]):
        if not w.isascii():
            continue
        if re.search('\x1b\\[[^\x40-\x7e]*[^0-9;\x40-\x7e][^\x40-\x7e]*m', w):
            continue      # non-numeric parameter bytes: Python int() leniency is outside the model
        cases.append(impl.run_history([['new', k % 2, w, []]]))
    divs, _ = corr.run_batch(cases)
    for (ops, _, _), d in zip(cases, divs):
        if d:
            div.append({'history': ops, 'divergence': d})
    return viol, div


def c02_replay(v, term):
    out = []
    def go():
        del out[:]
        c02_check(term, v['case']['input'], out, v['case'])
        return list(out)
    r = term.two_phase(go)
    return r[0]['msg'] if r else None


def styles_of(term, o):
    return [term.style([str(x) for x in o.ansi_settings_at(i)]) for i in range(len(o.base_str))]


def closed_text(x):
    """Python port of RoundTripEsc.closed_text (three-state reader): x tokenises to its own characters in every context -
    every ESC [ starts a COMPLETE sequence whose final byte (0x40-0x7E) is not 'm', and x does not end in ESC / inside a body"""
    st = 0                                   # 0 normal, 1 just after ESC, 2 inside the body of ESC [
    for c in x:
        if st == 0:
            st = 1 if c == ESC else 0
        elif st == 1:
            st = 2 if c == '[' else (1 if c == ESC else 0)
        else:
            if 0x40 <= ord(c) <= 0x7e:
                if c == 'm':
                    return False
                st = 0
    return st == 0


def esc_safe(o):
    """A value whose text contains U+001B is evaluated when the known finding K1 cannot apply to it - exactly the hypothesis
    cuts_closed of theorem C03_roundtrip_esc: the text is closed, and so is its prefix up to EVERY change point of the table (a
    stop-and-restart point counts, whatever the settings on both sides), i.e. no change point lies strictly inside an embedded
    sequence.  Then the rendering keeps the embedded sequences intact and re-tokenises into the same text."""
    base = o.base_str
    a = o._s if isinstance(o, AnsiStr) else o
    return closed_text(base) and all(closed_text(base[:k]) for k in a._fmts)


def c03_check(term, o, viol, payload):
    base = o.base_str
    if ESC in base and not esc_safe(o):
        return 'esc'
    used = [str(s) for i in range(len(base)) for s in o.ansi_settings_at(i)]
    infos = [term.info(t) for t in set(used)]
    if any(i is None for i in infos):
        styles_of(term, o)
        return 'pending'
    wf = all(i[3] for i in infos)
    st0 = styles_of(term, o)
    if wf:
        r = call(lambda: AnsiString(str(o)))
        if r[0] != 'ok':
            viol.append({'oracle': 'C03.roundtrip', 'case': payload, 'msg': 'AnsiString(str(s)) %s' % (r,)})
        else:
            p = r[1]
            st1 = styles_of(term, p)
            if p.base_str != base:
                viol.append({'oracle': 'C03.roundtrip', 'case': payload, 'msg': 'text %r after re-parse, was %r' % (p.base_str, base)})
            elif None not in st0 and None not in st1 and st0 != st1:
                k = [a != b for a, b in zip(st0, st1)].index(True)
                viol.append({'oracle': 'C03.roundtrip', 'case': payload, 'msg': 'character %d: style %s after re-parse, was %s (str: %r)' % (k, st1[k], st0[k], str(o))})
    # simplify: on values whose VALID settings are well-formed; the immutable class returns the simplified value
    valid_wf = all(i[3] for i in infos if i[0])
    t_ = AnsiStr(o)
    rt = call(lambda: t_.simplify())
    if rt[0] != 'ok' or not isinstance(rt[1], AnsiStr):
        viol.append({'oracle': 'C03.simplify', 'case': payload, 'msg': 'AnsiStr.simplify() %s' % (rt[:2],)})
    else:
        ct = rt[1]
        if ct.base_str != base:
            viol.append({'oracle': 'C03.simplify.text', 'case': payload, 'msg': 'AnsiStr.simplify() changed the text to %r' % ct.base_str})
        elif not ct.is_formatting_parsable() or not ct.is_formatting_valid():
            viol.append({'oracle': 'C03.simplify.parsable', 'case': payload, 'msg': 'after AnsiStr.simplify(): parsable=%s valid=%s' % (ct.is_formatting_parsable(), ct.is_formatting_valid())})
        elif valid_wf:
            exp_t = [term.style([str(x) for x in o.ansi_settings_at(i) if x.valid]) for i in range(len(base))]
            got_t = styles_of(term, ct)
            if None not in exp_t and None not in got_t and exp_t != got_t:
                k = [a != b for a, b in zip(exp_t, got_t)].index(True)
                viol.append({'oracle': 'C03.simplify.style', 'case': payload, 'msg': 'AnsiStr.simplify(): character %d: style %s, was %s' % (k, got_t[k], exp_t[k])})
        if str.__str__(ct) != ct.to_str():
            viol.append({'oracle': 'C03.simplify', 'case': payload, 'msg': 'AnsiStr.simplify(): str value %r differs from the rendering %r' % (str.__str__(ct), ct.to_str())})
    c = AnsiString(o)
    r = call(lambda: c.simplify())
    if r[0] != 'ok':
        viol.append({'oracle': 'C03.simplify', 'case': payload, 'msg': 'simplify() %s' % (r,)})
        return
    if c.base_str != base:
        viol.append({'oracle': 'C03.simplify.text', 'case': payload, 'msg': 'simplify changed the text to %r' % c.base_str})
        return
    if not c.is_formatting_parsable() or not c.is_formatting_valid():
        viol.append({'oracle': 'C03.simplify.parsable', 'case': payload, 'msg': 'after simplify(): parsable=%s valid=%s' % (c.is_formatting_parsable(), c.is_formatting_valid())})
    if valid_wf:
        # styles over the valid settings are preserved
        exp = [term.style([str(x) for x in o.ansi_settings_at(i) if x.valid]) for i in range(len(base))]
        got = styles_of(term, c)
        if None not in exp and None not in got and exp != got:
            k = [a != b for a, b in zip(exp, got)].index(True)
            viol.append({'oracle': 'C03.simplify.style', 'case': payload, 'msg': 'character %d: style %s after simplify(), was %s' % (k, got[k], exp[k])})
    s1 = str(c)
    c2 = AnsiString(c); c2.simplify()
    if str(c2) != s1:
        viol.append({'oracle': 'C03.idempotent', 'case': payload, 'msg': 'second simplify() changes str(): %r -> %r' % (s1, str(c2))})
    if str(AnsiString(s1)) != s1:
        viol.append({'oracle': 'C03.fixed_point', 'case': payload, 'msg': 'str(AnsiString(str(s))) = %r, str(s) = %r' % (str(AnsiString(s1)), s1)})
    return 'checked'


def c03_run(rep, rng, tier, term):
    viol, div = [], []
    vals = impl.build_values(rng, 300 if tier == 'quick' else 12000, odd='mix' and True)
    impl.drain_unobservable()
    vals += impl.build_values(rng, 200 if tier == 'quick' else 8000, odd=False)
    impl.drain_unobservable()
    # texts with embedded COMPLETE non-SGR control sequences (cursor / erase helpers of the library itself, function keys):
    # they stay in the text, and every style change after them must survive render + re-parse at the same character
    toks = [t for t in NON_SGR if CSI_RE.fullmatch(t) and CSI_RE.fullmatch(t).group(2) not in ('', 'm')]
    nesc = 0
    for k in range(60 if tier == 'quick' else 3000):
        tok, tok2 = rng.choice(toks), rng.choice(toks)
        pre, mid, post = rng.choice(['', 'a', 'ab']), rng.choice(['', 'status: ', 'b']), rng.choice(['OK', 'c', ''])
        text = pre + tok + mid + (tok2 if k % 3 == 0 else '') + post
        a, b = len(pre), len(pre) + len(tok)
        ops = [['new', k % 2, text, ([] if k % 4 else [['str', 'italic']])]]
        # change points at the boundaries of the embedded sequence and after it, never strictly inside
        for (f, st, en) in rng.sample([(['str', 'bold'], 0, a), (['str', 'red'], b, None), (['str', 'underline'], a, b), (['str', 'bg_blue'], b + len(mid), None),
                                       (['str', 'green'], 0, b), (['list', [['int', 38], ['int', 5], ['int', 214]]], len(text) - len(post), None),
                                       (['str', '[1;31'], b, None)], rng.randint(1, 3)):
            ops.append(['apply', 0, f, st, en, True])
        if k % 5 == 0:
            ops[0] = ['new', k % 2, pre + tok + mid + '\x1b[1;32m' + post + '\x1b[m' + (tok2 if k % 3 == 0 else ''), []]
            ops = ops[:1]
        pool = impl.Pool()
        try:
            for op in ops:
                pool.run(op)
        except Exception:  # noqa
            continue
        vals.append((pool.objs[0], ops, 0))
        nesc += 1
    rep.bump('values with embedded non-SGR control sequences', nesc)
    status = {}
    def go():
        del viol[:]
        status.clear()
        for (o, ops, i) in vals:
            r = c03_check(term, o, viol, {'history': ops, 'object': i})
            if ESC in o.base_str:
                status[r] = status.get(r, 0) + 1
    term.two_phase(go)
    rep.notes.append('values whose text contains U+001B: %s (esc = K1 class, not evaluated)' % dict(status))
    for (o, ops, i) in vals:
        rep.count({'history': ops, 'object': i}, len(o._fmts if hasattr(o, '_fmts') else o._s._fmts) >= 2)
    # correspondence: simplify and re-parse as history steps
    from . import corr
    cases = []
    for (o, ops, i) in vals[:400 if tier == 'quick' else 10000]:
        if ESC in o.base_str or not o.base_str.isascii():
            continue
        cases.append(impl.run_history(list(ops) + [['from', 0, i, []], ['simplify', len(_pool_len(ops)) if False else -1]][:1]))
    cases = []
    hw = {'new': 3, 'apply': 8, 'remove': 2, 'iadd': 2, 'slice': 1.5, 'simplify': 4, 'pad': 0.5}
    from .hist import HistGen
    for k in range(300 if tier == 'quick' else 10000):
        hg = HistGen(rng, weights=hw, odd=(k % 3 == 0), unicode_=False)
        cases.append(impl.run_history(hg, 8))
    divs, _ = corr.run_batch(cases)
    for (ops, _, _), d in zip(cases, divs):
        if d:
            div.append({'history': ops, 'divergence': d})
    return viol, div


def _pool_len(ops):
    return ops


def c03_replay(v, term):
    c = v['case']
    pool = impl.Pool()
    for op in c['history']:
        pool.run(op)
    o = pool.objs[c['object']]
    out = []
    def go():
        del out[:]
        c03_check(term, o, out, c)
        return list(out)
    r = term.two_phase(go)
    hit = [x for x in r if x['oracle'] == v.get('oracle')] or r
    return hit[0]['msg'] if hit else None


# ====================================================================== C12 (format spec) and C13
FILLS = ['', ' ', '*', ':', '+', '-', '0', '7', 'x', '<', '^', '\n']


def gen_spec(rng, n):
    fill = rng.choice(FILLS)
    flag = rng.choice(['', '', '+', '-'])
    align = rng.choice(['<', '>', '^', ''])
    width = rng.choice(['', str(n), str(n + 1), str(n + 2), str(n + 5), '0', '3'])
    ansi = rng.choice([None, None, 'red', 'bold;blue', '[1', '1;31', '', 'bg_rgb(1,2,3)', 'nosuchname',
                       # colons inside the ansi part: only the FIRST colon of the spec separates (':red' is no directive, '[38:5:1' is verbatim)
                       ':red', ':', '::1', ':[1', 'red:', '1:31', '[:', '[38:5:1', ' red', 'red '])
    if align == '':
        spec = width if rng.random() < 0.7 else fill + flag + width
    else:
        spec = fill + flag + align + width
    if ansi is not None:
        spec += ':' + ansi
    return spec, (fill, flag, align, width, ansi)


def pyformat(t, fill, align, width):
    if width == '':
        return t
    if width[0] == '0' and len(width) > 1:
        return None
    spec = (fill if fill else '') + (align if align else ('<' if fill else '')) + width
    try:
        return format(t, spec)
    except ValueError:
        return None


def c12fmt_run(rep, rng, tier, term):
    viol = []
    vals = impl.build_values(rng, 150 if tier == 'quick' else 5000, odd=False, kinds=(0, 1))
    viol += unobservable_violations('C12', ('pad',))
    for (o, ops, i) in vals:
        base = o.base_str
        if ESC in base or '\n' in base:
            continue
        for _ in range(5):
            spec, (fill, flag, align, width, ansi) = gen_spec(rng, len(base))
            if fill == '' and flag and align:
                # documented grammar .?[+-]?[<>^]?[0-9]* : the first character is the fill, so a lone +/- before
                # the alignment character is read as the fill character, not as the flag
                fill, flag = flag, ''
            payload = {'history': ops, 'object': i, 'spec': spec}
            rep.count(payload, bool(base))
            before = value_obs(o)
            got = call(lambda: format(o, spec))
            got2 = call(lambda: o.to_str(spec))
            if value_obs(o) != before:
                viol.append({'oracle': 'C12.format.receiver', 'case': payload, 'msg': 'format() changed the receiver'})
                continue
            if got != got2:
                viol.append({'oracle': 'C12.format', 'case': payload, 'msg': 'format(s, spec) %s differs from to_str(spec) %s' % (got, got2)})
                continue
            # reference: padding and apply_formatting on a copy, as the property says
            wellformed_grammar = (align != '' or (spec.split(':')[0].isdigit() or spec.split(':')[0] == '')) and (align == '' or True)
            c = AnsiString(o)
            def ref():
                ext = flag != '-'
                if ansi and not ext:
                    c.apply_formatting(ansi)
                if width != '':
                    w = int(width)
                    f = fill if fill else ' '
                    if align in ('<', ''):
                        c.ljust(w, f, inplace=True, extend_formatting=ext)
                    elif align == '>':
                        c.rjust(w, f, inplace=True, extend_formatting=ext)
                    else:
                        c.center(w, f, inplace=True, extend_formatting=ext)
                if ansi and ext:
                    c.apply_formatting(ansi)
                return str(c)
            in_grammar = (align != '') or (fill == '' and flag == '') or spec.split(':')[0].isdigit() or spec.split(':')[0] == ''
            # a spec whose fill/flag/align/width part re-reads differently (e.g. fill '<' with align '<') is
            # still inside the grammar; only check cases whose decomposition is unambiguous
            unamb = align != '' and fill not in ('<', '>', '^', '+', '-') and not (fill == '' and False)
            plain_width = align == '' and fill == '' and flag == ''
            if not (unamb or plain_width):
                rep.bump('format:ambiguous-skipped')
                continue
            if fill and fill in '0123456789' and align == '':
                continue
            want = call(ref)
            if got[0] != want[0] or (got[0] == 'err' and got[1] != want[1]):
                viol.append({'oracle': 'C12.format', 'case': payload, 'msg': 'format() %s, padding+apply on a copy %s' % (got, want)})
                continue
            if got[0] == 'ok' and got[1] != want[1]:
                viol.append({'oracle': 'C12.format', 'case': payload, 'msg': 'format() %r, padding+apply on a copy gives %r' % (got[1], want[1])})
                continue
            if got[0] == 'ok':
                pf = pyformat(base, fill, align, width)
                shown = SGR_RE.sub('', got[1])
                if pf is not None and shown != pf:
                    viol.append({'oracle': 'C12.format.text', 'case': payload, 'msg': 'format() shows %r, Python format gives %r' % (shown, pf)})
        # an empty string_format followed by ansi directives (the README's "double colon" form)
        for good, directive in ((':', None), (':5', '5'), (':31', '31'), (':red', 'red')):
            payload = {'history': ops, 'object': i, 'spec': good}
            rep.count(payload, True)
            got = call(lambda: format(o, good))
            c = AnsiString(o)
            if directive:
                c.apply_formatting(directive)
            want = ('ok', str(c))
            if got != want:
                viol.append({'oracle': 'C12.format.empty_string_format', 'case': payload,
                             'msg': 'format(s, %r) %s, apply_formatting(%r) on a copy gives %s' % (good, got, directive, want)})
        # outside the grammar -> ValueError
        for bad in ('x5', '<<3<', '^5^', '+5', ' 5', 'ab<5', '5x', '<5x', '<5 ', 'a', '5\n', 'x<5\n', '\n', '<\n', '\n5'):
            payload = {'history': ops, 'object': i, 'spec': bad}
            rep.count(payload, True)
            got = call(lambda: format(o, bad))
            if got != ('err', 'ValueError'):
                viol.append({'oracle': 'C12.format.error', 'case': payload, 'msg': 'format(s, %r) %s, expected ValueError' % (bad, got)})
    # an AnsiStr given as the format spec stands for its text, formatted or not
    for (vname, v) in (("AnsiString('ab','bold')", AnsiString('ab', 'bold')), ("AnsiStr('ab','bold')", AnsiStr('ab', 'bold')), ("AnsiString('')", AnsiString(''))):
        for spec in ('*>8:blue', '5', ':red', '-^6:[1;4', 'x<4', ''):
            payload = {'value': vname, 'spec': spec, 'spec given as': 'AnsiStr(spec, red)'}
            rep.count(payload, True)
            want = call(lambda: (format(v, spec), v.to_str(spec)))
            got1 = call(lambda: (format(v, AnsiStr(spec, 'red')), v.to_str(AnsiStr(spec, 'red'))))
            got2 = call(lambda: (format(v, AnsiStr(spec)), v.to_str(AnsiStr(spec))))
            if got1 != want or got2 != want:
                viol.append({'oracle': 'C12.format', 'case': payload, 'msg': 'format(%s, %r) gives %s; the spec given as formatted AnsiStr %s, as plain AnsiStr %s' % (vname, spec, want, got1, got2)})
    # an AnsiStr is a str: as fill character it stands for its TEXT (its raw str value is its rendering)
    for (vname, v) in (("AnsiString('ab','bold')", AnsiString('ab', 'bold')), ("AnsiStr('ab','bold')", AnsiStr('ab', 'bold')), ("AnsiString('')", AnsiString(''))):
        for fill in (AnsiStr('*', 'red'), AnsiStr('.'), AnsiStr('\u00e9', 'bold', 'red')):
            for meth, ref in (('ljust', str.ljust), ('rjust', str.rjust), ('center', None)):
                for w in (0, 3, 6):
                    payload = {'value': vname, 'method': meth, 'width': w, 'fillchar': 'AnsiStr(%r, ...)' % fill.base_str}
                    rep.count(payload, True)
                    got = call(lambda: getattr(v, meth)(w, fill))
                    want = call(lambda: getattr(v, meth)(w, fill.base_str))
                    if got[0] != 'ok' or want[0] != 'ok' or value_obs(got[1]) != value_obs(want[1]) or '\x1b' in got[1].base_str:
                        viol.append({'oracle': 'C12.fill', 'case': payload,
                                     'msg': '%s.%s(%d, AnsiStr fill): %s; with the fill character itself: %s' % (vname, meth, w, describe(got[1]) if got[0] == 'ok' else got, describe(want[1]) if want[0] == 'ok' else want)})
    # values WITHOUT any setting take their own early path in to_str; widths with leading zeros and specs that Python's
    # own str.__format__ would accept with another meaning (precision, type character, non-ASCII digits, '=' alignment,
    # grouping) must behave exactly as for styled values: the documented grammar, nothing more
    fixed = [('AnsiString()', AnsiString('')), ("AnsiString('ab')", AnsiString('ab')), ("AnsiStr('ab')", AnsiStr('ab')), ("AnsiStr('')", AnsiStr('')),
             ("AnsiString('a b')", AnsiString('a b')), ("AnsiString('ab','bold')", AnsiString('ab', 'bold')), ("AnsiStr('ab','red')", AnsiStr('ab', 'red'))]
    for (vname, v) in fixed:
        for width in ('05', '005', '00', '010', '5', '2', '0' * 19 + '5', '0' * 25 + '3', '0' * 40):      # leading zeros do not make a width large
            for align in ('', '<', '>', '^'):
                for fill in ('', '*', 'x', '0'):
                    if align == '' and fill:
                        continue
                    for ansi in (None, 'red'):
                        spec = fill + align + width + ('' if ansi is None else ':' + ansi)
                        payload = {'value': vname, 'spec': spec}
                        rep.count(payload, True)
                        c = AnsiString(v)
                        def ref2():
                            f = fill if fill else ' '
                            {'': c.ljust, '<': c.ljust, '>': c.rjust, '^': c.center}[align](int(width), f, inplace=True)
                            if ansi:
                                c.apply_formatting(ansi)
                            return str(c)
                        got, got2, want = call(lambda: format(v, spec)), call(lambda: v.to_str(spec)), call(ref2)
                        if got != want or got2 != want:
                            viol.append({'oracle': 'C12.format', 'case': payload,
                                         'msg': 'format(%s, %r) %s / to_str %s, padding+apply on a copy gives %s' % (vname, spec, got, got2, want)})
        for bad in ('.1', '5.1', 's', '5s', 'x<5s', '<\u0663', 'x>\u0661\u0660', '=5', '0=5', ',', '_', '5,', 'n', '#5', '05d', '5c', '<5.2', ' <5s', '5\n', '<5\n', 'x5', '5x',
                    # a width that cannot be a size: str raises ValueError (too many decimal digits), not OverflowError
                    '99999999999999999999', '>99999999999999999999', '*^99999999999999999999', 'x<99999999999999999999:red', '%d' % (2 ** 63)):
            payload = {'value': vname, 'spec': bad}
            rep.count(payload, True)
            got = call(lambda: format(v, bad))
            got2 = call(lambda: v.to_str(bad))
            if got != ('err', 'ValueError') or got2 != ('err', 'ValueError'):
                viol.append({'oracle': 'C12.format.error', 'case': payload, 'msg': 'format(%s, %r) %s / to_str %s, expected ValueError (outside the grammar)' % (vname, bad, got, got2)})
    return viol, []


def c13_args(rng, o):
    """(method, args, kwargs) samples for the shared methods, given the receiver"""
    base = o.base_str
    n = len(base)
    g = Gen(rng, odd=False)
    sub = sub_of(rng, base)
    if sub and rng.random() < 0.25:
        sub = sub.swapcase()             # occurs only with another letter case
    f = lambda: form_py(g.simple_form())
    a, b = optint(rng, n), optint(rng, n)
    w = rng.choice([0, n, n + 1, n + 3, n + 4])
    fill = rng.choice([' ', '*', ':'])
    return [
        ('ansi_settings_at', (rng.choice([0, n - 1, n, -1]),), {}), ('settings_at', (rng.choice([0, n - 1, n]),), {}),
        ('apply_formatting', (f(), a if a is not None else 0, b, rng.random() < 0.6), {}),
        ('remove_formatting', (rng.choice([None, f()]), a if a is not None else 0, b), {}),
        ('clear_formatting', (), {}), ('simplify', (), {}),
        ('format_matching', (sub, f()), {'regex': False, 'match_case': rng.random() < 0.5, 'count': rng.choice([-1, 1])}),
        ('unformat_matching', (sub,), {'count': rng.choice([-1, 1])}),
        ('find_settings', (f(), a if a is not None else 0, b, rng.random() < 0.4), {}),
        ('capitalize', (), {}), ('casefold', (), {}), ('lower', (), {}), ('upper', (), {}), ('swapcase', (), {}), ('title', (), {}),
        ('center', (w, fill), ({} if rng.random() < 0.5 else {'extend_formatting': rng.random() < 0.5})), ('ljust', (w, fill), ({} if rng.random() < 0.5 else {'extend_formatting': False})),
        ('rjust', (w, fill), ({} if rng.random() < 0.5 else {'extend_formatting': False})), ('zfill', (w,), {}),
        ('clip', (a, b), {}), ('strip', (rng.choice([None, 'a', 'ab '])), {}) if False else ('strip', (rng.choice([None, 'a', 'ab ']),), {}),
        ('lstrip', (rng.choice([None, 'a', '', base[:1] + ' ']),), {}), ('rstrip', (rng.choice([None, 'b', '', base[-1:] + ' ']),), {}),
        ('removeprefix', (rng.choice([base[:1], base[:2], '', 'zz', base, base + 'x']),), {}),
        ('removesuffix', (rng.choice([base[-1:], base[-2:], '', 'zz', base, 'x' + base]),), {}),
        ('replace', (rng.choice([sub or 'a', '', base[:1]]), rng.choice(['x', '', 'ab', sub or 'a']), rng.choice([-1, 0, 1, 2])), {}), ('expandtabs', (rng.choice([0, 2, 4]),), {}),
        ('split', (rng.choice([None, sub or 'a']), rng.choice([-1, 1])), {}), ('rsplit', (rng.choice([None, sub or 'a']), rng.choice([-1, 1])), {}),
        ('splitlines', (rng.random() < 0.5,), {}), ('partition', (rng.choice([sub or 'a', 'zz', base[:1]]),), {}), ('rpartition', (rng.choice([sub or 'b', 'zz', base[-1:]]),), {}),
        ('count', (sub, a, b), {}), ('find', (sub, a, b), {}), ('rfind', (sub, a, b), {}), ('index', (sub, a, b), {}), ('rindex', (sub, a, b), {}),
        ('endswith', (sub, a, b), {}), ('encode', (), {}),
        ('is_formatting_valid', (), {}), ('is_formatting_parsable', (), {}), ('is_optimizable', (), {}),
        ('to_str', (rng.choice([None, '>%d' % (n + 2), '*^%d:red' % (n + 3), ' -<%d:bold' % (n + 2)]), rng.random() < 0.6, rng.random() < 0.4, rng.random() < 0.6), {}),
    ] + [(m, (), {}) for m in ('isalnum', 'isalpha', 'isascii', 'isdecimal', 'isdigit', 'isidentifier', 'islower', 'isnumeric', 'isprintable',
                              'isspace', 'istitle', 'isupper')]


INPLACE_MUTATORS = {'apply_formatting', 'remove_formatting', 'clear_formatting', 'simplify', 'format_matching', 'unformat_matching'}
HAS_INPLACE = {'capitalize', 'casefold', 'lower', 'upper', 'swapcase', 'title', 'center', 'ljust', 'rjust', 'zfill', 'clip', 'strip', 'lstrip',
               'rstrip', 'removeprefix', 'removesuffix', 'replace', 'expandtabs'}


def norm_result(r, want_cls):
    """-> comparable value, and a class complaint or None"""
    if isinstance(r, (AnsiString, AnsiStr)):
        return ('value', value_obs(r)), (None if isinstance(r, want_cls) else 'result is %s' % type(r).__name__)
    if isinstance(r, (list, tuple)) and r and all(isinstance(x, (AnsiString, AnsiStr)) for x in r):
        bad = [type(x).__name__ for x in r if not isinstance(x, want_cls)]
        return ('values', [value_obs(x) for x in r]), ('items are %s' % bad[0] if bad else None)
    if isinstance(r, list) and r and all(isinstance(x, AnsiSetting) for x in r):
        return ('settings', [str(x) for x in r]), None
    if isinstance(r, (list, tuple)):
        return ('seq', list(r)), None
    return ('plain', r), None


def c13_run(rep, rng, tier, term):
    viol = []
    # the two classes expose the same public methods
    pa = set(x for x in dir(AnsiString) if not x.startswith('_'))
    pb = set(x for x in dir(AnsiStr) if not x.startswith('_'))
    only_a = pa - pb - {'WITH_ASSERTIONS', 'assign_str', 'copy', 'set_ansi_str'}
    only_b = pb - pa - set(dir(str))
    if only_a or only_b:
        viol.append({'oracle': 'C13.methods', 'case': {'only_AnsiString': sorted(only_a), 'only_AnsiStr': sorted(only_b)},
                     'msg': 'public methods present in one class only: %s %s' % (sorted(only_a), sorted(only_b))})
    shared = pa & pb
    # ... with the same parameters (names, order, kinds, defaults), the in-place switch of the mutable class aside:
    # "every method common to both classes x all arguments"
    import inspect as _inspect
    for name in sorted(shared):
        fa, fb = _inspect.getattr_static(AnsiString, name), _inspect.getattr_static(AnsiStr, name)
        fa = fa.__func__ if isinstance(fa, (staticmethod, classmethod)) else fa
        fb = fb.__func__ if isinstance(fb, (staticmethod, classmethod)) else fb
        if not (_inspect.isfunction(fa) and _inspect.isfunction(fb)):
            continue
        def shape(f):
            return [(p.name, p.kind, p.default) for p in _inspect.signature(f).parameters.values() if p.name not in ('inplace', 'self')]
        rep.count({'signature of': name}, True)
        if shape(fa) != shape(fb):
            viol.append({'oracle': 'C13.signature', 'case': {'method': name},
                         'msg': 'AnsiString.%s%s and AnsiStr.%s%s do not take the same arguments' % (name, _inspect.signature(fa), name, _inspect.signature(fb))})
    covered = set()
    vals = impl.build_values(rng, 120 if tier == 'quick' else 5000, odd=False)
    impl.drain_unobservable()
    # ... and values whose TEXT carries pieces of control sequences (the two classes must still do the same: F44)
    vals += impl.build_values(rng, 40 if tier == 'quick' else 1500, odd=False, esc=0.6)
    impl.drain_unobservable()
    # constructor from text that already CONTAINS escape sequences (also sequences that leave no setting behind: a lone
    # reset, unknown codes, a style switched on and off before any text, a sequence after the last character)
    fixed_ansi = ['\x1b[0mabc', '\x1b[mabc', 'abc\x1b[0m', 'a\x1b[0mbc', '\x1b[99mabc', '\x1b[31m\x1b[0mabc', 'abc\x1b[31m', '\x1b[31mabc',
                  '\x1b[2Jabc', '\x1b[1mab\x1b[22mc', '\x1b[38;5mab', '', '\x1b[m', '\x1b[31m']
    for w in fixed_ansi + [ansi_input(rng) for _ in range(300 if tier == 'quick' else 20000)]:
        for forms in ([], ['bold']):
            payload = {'source text': w, 'settings': forms}
            rep.count(payload, '\x1b[' in w)
            ra, rb = call(lambda: AnsiString(w, *forms)), call(lambda: AnsiStr(w, *forms))
            if ra[0] != rb[0] or (ra[0] == 'err' and ra[1] != rb[1]):
                viol.append({'oracle': 'C13.ctor', 'case': payload, 'msg': 'AnsiString %s, AnsiStr %s' % (ra, rb)})
                continue
            if ra[0] != 'ok':
                continue
            if value_obs(ra[1]) != value_obs(rb[1]):
                viol.append({'oracle': 'C13.ctor', 'case': payload, 'msg': 'AnsiStr(%r) differs from AnsiString: %s vs %s' % (w, describe(rb[1]), describe(ra[1]))})
            elif str.__str__(rb[1]) != rb[1].to_str() or ('%s' % rb[1]) != rb[1].to_str():
                viol.append({'oracle': 'C13.payload', 'case': payload,
                             'msg': 'AnsiStr(%r): str payload %r differs from its own rendering %r' % (w, str.__str__(rb[1]), rb[1].to_str())})
    # copies made by the standard protocols (copy.copy, copy.deepcopy, pickle) are AnsiStr values like any other: payload equal to
    # the rendering, equal to the original; == / != answer like the AnsiString twins do (and != is the opposite of ==)
    import copy as _copy, pickle as _pickle
    fixed_vals = [(AnsiStr('ab').apply_formatting('faint', 0, 1).apply_formatting(['red', 'blue'], 1, 2), 'faint a, red+blue b'),
                  (AnsiStr('a', '[38;2'), "AnsiStr('a', '[38;2')"), (AnsiStr('a', 'bold', 'bold'), "AnsiStr('a','bold','bold')"), (AnsiStr('a', 'bold'), "AnsiStr('a','bold')"),
                  (AnsiStr('abcde').apply_formatting('red', 0, 3).apply_formatting('blue', 1, 5).apply_formatting('red', 2, 4), 'red[0,3) blue[1,5) red[2,4)'),
                  (AnsiStr('abcde').apply_formatting('red', 0, 4).apply_formatting('blue', 1, 5).apply_formatting('red', 2, 3), 'red[0,4) blue[1,5) red[2,3)'),
                  (AnsiStr('a', '[31', '[34'), "AnsiStr('a','[31','[34')"), (AnsiStr('a', '[34'), "AnsiStr('a','[34')"), (AnsiStr('a'), "AnsiStr('a')"), (AnsiStr(''), "AnsiStr('')")]
    pool = fixed_vals + [(AnsiStr(o), {'history': ops, 'object': i}) for (o, ops, i) in vals[:150 if tier == 'quick' else 4000]]
    for (x, name) in pool:
        for how, mk in (('copy.copy', _copy.copy), ('copy.deepcopy', _copy.deepcopy), ('pickle', lambda v: _pickle.loads(_pickle.dumps(v)))):
            payload = {'value': name, 'copied by': how}
            rep.count(payload, True)
            r = call(lambda: mk(x))
            if r[0] != 'ok' or not isinstance(r[1], AnsiStr):
                viol.append({'oracle': 'C13.copy', 'case': payload, 'msg': '%s gives %s' % (how, r[:2])})
                continue
            y = r[1]
            if str.__str__(y) != y.to_str() or ('%s' % y) != y.to_str():
                viol.append({'oracle': 'C13.copy', 'case': payload, 'msg': 'the copy has the str value %r but renders as %r' % (str.__str__(y), y.to_str())})
            elif value_obs(y) != value_obs(x) or str.__str__(y) != str.__str__(x):
                viol.append({'oracle': 'C13.copy', 'case': payload, 'msg': 'the copy differs from the original: %s vs %s' % (describe(y), describe(x))})
    for k, (x, xn) in enumerate(pool):
        for (y, yn) in [pool[(k + 1) % len(pool)], pool[(k + 2) % len(pool)], (x, xn), (AnsiStr(x), 'a copy')]:
            payload = {'left': xn, 'right': yn}
            rep.count(payload, True)
            a, b = AnsiString(x), AnsiString(y)
            want = (a == b)
            if want:
                # values that compare equal cannot be told apart: same per-character settings, same renderings, same hash
                pc = lambda v: [[str(z) for z in v.ansi_settings_at(m)] for m in range(len(v.base_str))]
                if pc(a) != pc(b) or [a.to_str(None, *f) for f in FLAGS8] != [b.to_str(None, *f) for f in FLAGS8] or hash(x) != hash(y) or str.__str__(x) != str.__str__(y):
                    viol.append({'oracle': 'C13.eq', 'case': payload, 'msg': 'the two values compare equal but differ: %s rendered %r / %s rendered %r' % (pc(a), str(a), pc(b), str(b))})
                    continue
            if (x == y) is not want or (x != y) is not (not want) or (a != b) is not (not want):
                viol.append({'oracle': 'C13.eq', 'case': payload, 'msg': 'AnsiStr: == %s, != %s; the AnsiString twins: == %s, != %s (%s / %s)' % (x == y, x != y, a == b, a != b, describe(x), describe(y))})
        for other in (x.base_str, str.__str__(x), 5, None):
            a = AnsiString(x)
            if (x == other) is not (a == other) or (x != other) is not (a != other) or (x != other) is (x == other):
                viol.append({'oracle': 'C13.eq', 'case': {'left': xn, 'right': repr(other)},
                             'msg': 'against %r: AnsiStr == %s, != %s; AnsiString == %s, != %s' % (other, x == other, x != other, a == other, a != other)})
    # constructor forms
    g = Gen(rng, odd=False)
    for (o, ops, i) in vals[:200 if tier == 'quick' else 5000]:
        for src in (o.base_str, o, AnsiStr(o)):
            for forms in ([], [form_py(g.simple_form())], [form_py(g.simple_form()), form_py(g.simple_form())]):
                payload = {'history': ops, 'object': i, 'source': type(src).__name__, 'settings': [repr(f) for f in forms]}
                rep.count(payload, True)
                ra = call(lambda: AnsiString(src, *forms))
                rb = call(lambda: AnsiStr(src, *forms))
                if ra[0] != rb[0] or (ra[0] == 'err' and ra[1] != rb[1]):
                    viol.append({'oracle': 'C13.ctor', 'case': payload, 'msg': 'AnsiString %s, AnsiStr %s' % (ra, rb)})
                    continue
                if ra[0] != 'ok':
                    continue
                if value_obs(ra[1]) != value_obs(rb[1]):
                    viol.append({'oracle': 'C13.ctor', 'case': payload, 'msg': 'AnsiStr(%s, ...) differs from AnsiString: %s vs %s' % (type(src).__name__, describe(rb[1]), describe(ra[1]))})
                if str.__str__(rb[1]) != str(rb[1]) or str.__str__(rb[1]) != rb[1].to_str():
                    viol.append({'oracle': 'C13.payload', 'case': payload, 'msg': 'str payload %r differs from rendering %r' % (str.__str__(rb[1]), rb[1].to_str())})
    for (o, ops, i) in vals:
        if not isinstance(o, AnsiString):
            continue
        twin = AnsiStr(o)
        if str.__str__(twin) != str(o) or ('%s' % twin) != str(o):
            viol.append({'oracle': 'C13.payload', 'case': {'history': ops, 'object': i}, 'msg': "payload %r, rendering %r" % (str.__str__(twin), str(o))})
        for (m, args, kw) in c13_args(rng, o):
            if m not in shared:
                continue
            covered.add(m)
            payload = {'history': ops, 'object': i, 'method': m, 'args': [repr(x) for x in args], 'kwargs': kw}
            rep.count(payload, len(o._fmts) >= 2)
            rep.bump('method:' + m)
            a_copy = AnsiString(o)
            before = value_obs(twin)
            if m in INPLACE_MUTATORS:
                ra = call(lambda: (getattr(a_copy, m)(*args, **kw), a_copy)[1])
            elif m in HAS_INPLACE:
                ra = call(lambda: getattr(a_copy, m)(*args, **kw))
            else:
                ra = call(lambda: getattr(a_copy, m)(*args, **kw))
            rb = call(lambda: getattr(twin, m)(*args, **kw))
            if value_obs(twin) != before:
                viol.append({'oracle': 'C13.immutable', 'case': payload, 'msg': 'AnsiStr.%s changed its receiver' % m})
            if ra[0] != rb[0] or (ra[0] == 'err' and ra[1] != rb[1]):
                viol.append({'oracle': 'C13.' + m, 'case': payload, 'msg': 'AnsiString %s, AnsiStr %s' % (ra[:2], rb[:2])})
                continue
            if ra[0] != 'ok':
                continue
            na, _ = norm_result(ra[1], AnsiString)
            nb, complaint = norm_result(rb[1], AnsiStr)
            if na != nb:
                viol.append({'oracle': 'C13.' + m, 'case': payload, 'msg': 'results differ: AnsiString %s, AnsiStr %s' % (str(na)[:300], str(nb)[:300])})
            elif complaint and nb[0] in ('value', 'values'):
                viol.append({'oracle': 'C13.class', 'case': payload, 'msg': 'AnsiStr.%s: %s' % (m, complaint)})
            if nb[0] == 'value' and isinstance(rb[1], AnsiStr) and str.__str__(rb[1]) != rb[1].to_str():
                viol.append({'oracle': 'C13.payload', 'case': payload, 'msg': 'payload of the result of %s differs from its rendering' % m})
        # operators
        other = rng.choice(vals)[0]
        for opname, fa, fb in (('+', lambda: AnsiString(o) + other, lambda: twin + other),
                               ('+str', lambda: AnsiString(o) + 'xy', lambda: twin + 'xy'),
                               ('[]', lambda: AnsiString(o)[1:-1], lambda: twin[1:-1]),
                               ('iter', lambda: list(AnsiString(o)), lambda: list(twin)),
                               ('len', lambda: len(o), lambda: len(twin)),
                               ('in', lambda: 'a' in o, lambda: 'a' in twin),
                               ('format', lambda: format(o, '>%d:red' % (len(o) + 2)), lambda: format(twin, '>%d:red' % (len(o) + 2))),
                               ('join', lambda: AnsiString.join(o, 'x', other), lambda: AnsiStr.join(twin, 'x', other)),
                               ('+=', lambda: AnsiString(o).__iadd__(other), lambda: twin.__iadd__(other)),
                               ('apply_formatting_for_match',
                                lambda: (lambda c: (c.apply_formatting_for_match('bg_blue', re.search('(a+)(b*)', c.base_str) or re.search('', c.base_str), 0), c)[1])(AnsiString(o)),
                                lambda: twin.apply_formatting_for_match('bg_blue', re.search('(a+)(b*)', twin.base_str) or re.search('', twin.base_str), 0)),
                               ('apply_formatting_for_match group',
                                lambda: (lambda c: (c.apply_formatting_for_match(['bold', 'red'], re.search('(a*)(b+|$)', c.base_str), 2), c)[1])(AnsiString(o)),
                                lambda: twin.apply_formatting_for_match(['bold', 'red'], re.search('(a*)(b+|$)', twin.base_str), 2))):
            payload = {'history': ops, 'object': i, 'operator': opname}
            rep.count(payload, True)
            ra, rb = call(fa), call(fb)
            if ra[0] != rb[0]:
                viol.append({'oracle': 'C13.op' + opname, 'case': payload, 'msg': 'AnsiString %s, AnsiStr %s' % (ra[:2], rb[:2])})
                continue
            if ra[0] == 'ok':
                na, _ = norm_result(ra[1], AnsiString)
                nb, complaint = norm_result(rb[1], AnsiStr)
                if na != nb or (complaint and nb[0] in ('value', 'values')):
                    viol.append({'oracle': 'C13.op' + opname, 'case': payload, 'msg': 'results differ (%s): %s vs %s' % (complaint, str(na)[:200], str(nb)[:200])})
    missing = shared - covered - {'base_str', 'join', 'apply_formatting_for_match'}
    if missing:
        rep.notes.append('shared methods without an argument generator: %s' % sorted(missing))
    rep.notes.append('shared public methods: %d, exercised: %d' % (len(shared), len(covered)))
    return viol, []


_REPLAY_CACHE = {}


def generic_case_replay(runfn):
    def f(v, term):
        class R:
            notes = []
            def count(self, *a, **k): pass
            def bump(self, *a, **k): pass
        from .term import Term
        seed = int(__import__('os').environ.get('VERIF_SEED', '20260926'))
        key = (id(runfn), seed)
        if key not in _REPLAY_CACHE:          # one rerun serves every recorded case of this exploration
            _REPLAY_CACHE[key] = runfn(R(), random.Random(seed), 'quick', term or Term())[0]
        vi = _REPLAY_CACHE[key]
        # the SAME case under the same oracle (the run is deterministic for a seed); another case failing under that oracle is
        # reported by the run itself, with its own input, not under this entry's name
        hit = [x for x in vi if x['oracle'] == v.get('oracle') and json.dumps(x.get('case'), sort_keys=True, default=str) == json.dumps(v.get('case'), sort_keys=True, default=str)]
        return hit[0]['msg'] if hit else None
    return f


# ====================================================================== C17 find_settings oracle on histories
def c17_find_oracle(term, ops, recs, fails):
    from .oracles import norm_range
    for t, (op, rec) in enumerate(zip(ops, recs)):
        if op[0] != 'find' or rec['res'][0] != 'ok' or t == 0:
            continue
        _, i, f, st, en, rev = op
        if f[0] != 'list' or not all(x[0] == 'setting' for x in f[1]):
            continue
        want = [x[1] for x in f[1]]
        src = recs[t - 1]['obs'][i]
        n = len(src[BASE])
        a, b = norm_range(n, st, en)
        fs, fe = rec['res'][2]
        fs = None if fs == [] else fs
        fe = None if fe == [] else fe
        has = lambda k: k < n and all(w in texts(src[CHARS][k]) for w in want)
        if b < a:
            if (fs, fe) != (None, None):
                fails.append({'oracle': 'C17.find', 'step': t, 'msg': 'end < start but result %s' % ((fs, fe),)})
            continue
        if not want:
            if (fs, fe) != (a, b):
                fails.append({'oracle': 'C17.find', 'step': t, 'msg': 'empty settings: %s, normalised range %s' % ((fs, fe), (a, b))})
            continue
        rng_pos = [k for k in range(a, b + 1)]
        if fs is None:
            if fe is not None or any(has(k) for k in range(a, min(b, n))):
                fails.append({'oracle': 'C17.find', 'step': t, 'msg': '(None, %s) although position %s has all settings' % (fe, [k for k in range(a, min(b, n)) if has(k)][:1])})
            continue
        if not (a <= fs <= b) or not (has(fs) or fs >= n):
            fails.append({'oracle': 'C17.find', 'step': t, 'msg': 'found_start %s: not in range %s or lacks a setting' % (fs, (a, b))})
            continue
        if fs < n and not has(fs):
            fails.append({'oracle': 'C17.find', 'step': t, 'msg': 'found_start %s lacks a setting' % fs})
            continue
        if not rev and any(has(k) for k in range(a, fs)):
            fails.append({'oracle': 'C17.find', 'step': t, 'msg': 'found_start %s is not the first position with all settings (%s is)' % (fs, [k for k in range(a, fs) if has(k)][0])})
            continue
        end = fe if fe is not None else b
        if fe is not None and not (fs < fe <= b):
            fails.append({'oracle': 'C17.find', 'step': t, 'msg': 'found_end %s not after found_start %s within the range' % (fe, fs)})
            continue
        lack = [k for k in range(fs, min(end, n)) if not has(k)]
        if lack:
            fails.append({'oracle': 'C17.find', 'step': t, 'msg': 'position %d between found_start %s and found_end %s lacks a setting' % (lack[0], fs, fe)})
            continue
        if fe is not None and fe < n and has(fe):
            fails.append({'oracle': 'C17.find', 'step': t, 'msg': 'found_end %s still has all settings' % fe})


# ====================================================================== C11 extra: assign_str with an AnsiStr argument
def c11_assign_ansistr_run(rep, rng, tier, term):
    viol = []
    for (vname, mk) in (("AnsiString('abc','bold')", lambda: AnsiString('abc', 'bold')), ("AnsiString('')", lambda: AnsiString('')),
                        ("AnsiString('abcdef','red') + bold[2:4]", lambda: (lambda s: (s.apply_formatting('bold', 2, 4), s)[1])(AnsiString('abcdef', 'red')))):
        for arg in (AnsiStr('xyzw', 'red'), AnsiStr('x'), AnsiStr('', 'bold'), AnsiStr('\u00e9\u00df', 'underline'), LoudStr('xyzw'), LoudStr('')):
            a, b = mk(), mk()
            plain = arg.base_str if isinstance(arg, AnsiStr) else str.__str__(arg)
            payload = {'value': vname, 'argument': '%s(%r, ...)' % (type(arg).__name__, plain)}
            rep.count(payload, True)
            ra, rb = call(lambda: a.assign_str(arg)), call(lambda: b.assign_str(plain))
            # the text is a plain str afterwards: str(), format(), '%s' and the AnsiStr made of the value all show the same characters
            shown = call(lambda: (type(a.base_str) is str, '{}'.format(a) == str(a), ('%s' % a) == str(a), str.__str__(AnsiStr(a)) == AnsiStr(a).to_str() == str(a)))
            if shown != ('ok', (True, True, True, True)):
                viol.append({'oracle': 'C11.assign.ansistr', 'case': payload, 'msg': 'after assign_str(%s): (text is a plain str, format == str, %%s == str, AnsiStr payload == rendering) = %s' % (type(arg).__name__, shown)})
                continue
            if ra[0] != rb[0] or value_obs(a) != value_obs(b) or type(a.base_str) is not str or '\x1b' in a.base_str:
                viol.append({'oracle': 'C11.assign.ansistr', 'case': payload,
                             'msg': 'assign_str(AnsiStr) gives %s (base_str type %s); assign_str of its text gives %s' % (describe(a), type(a.base_str).__name__, describe(b))})
    return viol, []


# ====================================================================== C07 on texts that contain U+001B
def c07_esc_run(rep, rng, tier, term):
    """remove_formatting / clear_formatting on values whose TEXT contains U+001B (reachable through assign_str, concatenation,
    case conversion): the text is never changed - in particular it is not parsed again - and the selected settings go, on both
    classes.  (The history runs use generated texts without escapes.)"""
    viol = []
    n = 120 if tier == 'quick' else 6000
    for k in range(n):
        t = esc_text(rng)
        if ESC not in t:
            continue
        clsname = 'AnsiStr' if k % 2 else 'AnsiString'
        a = AnsiString('')
        a.assign_str(t)
        L = len(t)
        spans = [(rng.choice(['bold', 'red', 'italic', '[38;5;1']), rng.randint(0, L), rng.randint(0, L + 1)) for _ in range(rng.randint(0, 3))]
        for (f, st, en) in spans:
            a.apply_formatting(f, st, en)
        v = AnsiStr(a) if clsname == 'AnsiStr' else a
        before = [[(id(x), str(x)) for x in v.ansi_settings_at(i)] for i in range(L)]
        for (what, sel, st, en) in (('clear_formatting()', None, None, None), ('remove_formatting()', None, None, None),
                                    ("remove_formatting('bold')", 'bold', None, None), ("remove_formatting(None, 1, %d)" % (L - 1), None, 1, L - 1)):
            payload = {'class': clsname, 'text': t, 'applied': [list(x) for x in spans], 'call': what}
            rep.count(payload, bool(spans))
            c = AnsiString(a)
            w = AnsiStr(c) if clsname == 'AnsiStr' else c
            if what == 'clear_formatting()':
                r = call(lambda: w.clear_formatting())
            else:
                r = call(lambda: w.remove_formatting(sel, st, en))
            if r[0] != 'ok':
                viol.append({'oracle': 'C07.esc', 'case': payload, 'msg': '%s %s' % (what, r)})
                continue
            res = r[1] if clsname == 'AnsiStr' else w
            if not hasattr(res, 'base_str') or res.base_str != t:
                viol.append({'oracle': 'C07.esc', 'case': payload, 'msg': '%s changed the text %r to %r' % (what, t, getattr(res, 'base_str', res))})
                continue
            lo, hi = (0, L) if st is None else (st, max(st, en))
            for i in range(L):
                now = [(id(x), str(x)) for x in res.ansi_settings_at(i)]
                if lo <= i < hi:
                    want = [x for x in before[i] if sel is not None and x[1] != {'bold': '1'}.get(sel, sel)]
                else:
                    want = before[i]
                if [x[1] for x in now] != [x[1] for x in want]:
                    viol.append({'oracle': 'C07.esc', 'case': payload,
                                 'msg': '%s: character %d reports %s, expected %s (before: %s)' % (what, i, [x[1] for x in now], [x[1] for x in want], [x[1] for x in before[i]])})
                    break
            if clsname == 'AnsiStr' and str.__str__(res) != res.to_str():
                viol.append({'oracle': 'C07.esc', 'case': payload, 'msg': 'payload of the result differs from its rendering'})
    return viol, []


# ====================================================================== C04 on texts that contain U+001B
def c04_esc_run(rep, rng, tier, term):
    """slices, integer indices, clip and iteration of values whose TEXT contains U+001B - unformatted ones in particular (no change
    point at all), with texts that spell complete SGR sequences (reachable through assign_str, concatenation of pieces, case
    conversion of ESC [ 1 M, clear_formatting): the piece of text is taken as it is, never parsed again"""
    viol = []
    n = 60 if tier == 'quick' else 3000
    fixed = ['\x1b[1mXY', 'a\x1b[31mb\x1b[mc', '\x1b[m', 'x\x1b[1;4m', '\x1b[2J\x1b[1mq']
    for k in range(n):
        t = fixed[k] if k < len(fixed) else esc_text(rng)
        if ESC not in t:
            continue
        clsname = 'AnsiStr' if k % 2 else 'AnsiString'
        a = AnsiString('')
        a.assign_str(t)
        L = len(t)
        spans = [] if k % 3 == 0 else [(rng.choice(['bold', 'red', '[38;5;1']), rng.randint(0, L), rng.randint(0, L + 1)) for _ in range(rng.randint(1, 2))]
        for (f, st, en) in spans:
            a.apply_formatting(f, st, en)
        v = AnsiStr(a) if clsname == 'AnsiStr' else a
        src = [[str(x) for x in v.ansi_settings_at(i)] for i in range(L)]
        bounds = [None] + list(range(-L - 1, L + 2))
        pairs = [(i, j) for i in bounds for j in bounds] if L <= 6 else [(rng.choice(bounds), rng.choice(bounds)) for _ in range(60)]
        for (i, j) in pairs:
            payload = {'class': clsname, 'text': t, 'applied': [list(x) for x in spans], 'slice': [i, j]}
            rep.count(payload, True)
            r = call(lambda: v[i:j])
            if r[0] != 'ok':
                viol.append({'oracle': 'C04.esc', 'case': payload, 'msg': 's[%r:%r] %s' % (i, j, r)})
                break
            p = r[1]
            idx = list(range(L))[i:j]
            if p.base_str != t[i:j]:
                viol.append({'oracle': 'C04.esc', 'case': payload, 'msg': 's[%r:%r] has the text %r, base_str[%r:%r] is %r' % (i, j, p.base_str, i, j, t[i:j])})
                break
            got = [[str(x) for x in p.ansi_settings_at(m)] for m in range(len(p.base_str))]
            if got != [src[m] for m in idx]:
                viol.append({'oracle': 'C04.esc', 'case': payload, 'msg': 's[%r:%r] reports %s, the source characters report %s' % (i, j, got, [src[m] for m in idx])})
                break
            c = call(lambda: (AnsiString(v) if clsname == 'AnsiString' else v).clip(i, j))
            if c[0] != 'ok' or value_obs(c[1]) != value_obs(p):
                viol.append({'oracle': 'C04.esc', 'case': payload, 'msg': 'clip(%r, %r) differs from s[%r:%r]' % (i, j, i, j)})
                break
        pieces = call(lambda: [x.base_str for x in v])
        if pieces != ('ok', list(t)):
            viol.append({'oracle': 'C04.esc', 'case': {'class': clsname, 'text': t, 'applied': [list(x) for x in spans], 'iteration': True}, 'msg': 'iteration yields %s' % (pieces,)})
    return viol, []


# ====================================================================== C08: copies made by the standard protocols
def c08_copy_run(rep, rng, tier, term):
    """copy.copy / copy.deepcopy / pickle of a value (both classes) give a value that compares equal, renders identically and is
    INDEPENDENT of its source: editing one never changes the other (the copy() method and the constructor are history steps)"""
    import copy as _copy, pickle as _pickle
    viol = []
    vals = impl.build_values(rng, 60 if tier == 'quick' else 3000, odd=False, kinds=(0, 1))
    impl.drain_unobservable()
    for (o, ops, i) in vals:
        for how, mk in (('copy.copy', _copy.copy), ('copy.deepcopy', _copy.deepcopy), ('pickle', lambda v: _pickle.loads(_pickle.dumps(v)))):
            payload = {'history': ops, 'object': i, 'copied by': how}
            rep.count(payload, True)
            r = call(lambda: mk(o))
            if r[0] != 'ok' or type(r[1]) is not type(o):
                viol.append({'oracle': 'C08.stdcopy', 'case': payload, 'msg': '%s gives %s' % (how, r[:2])})
                continue
            c = r[1]
            before = value_obs(o)
            if value_obs(c) != before or not (c == o) or (c != o):
                viol.append({'oracle': 'C08.stdcopy', 'case': payload, 'msg': 'the copy differs from its source (== %s): %s vs %s' % (c == o, describe(c), describe(o))})
                continue
            if isinstance(o, AnsiString):
                # edit the copy in place in several ways; the source must not move - and the other way round
                c.apply_formatting('bg_blue', 0, None)
                c += AnsiString('zz', 'red')
                c.ljust(len(c.base_str) + 2, '.', inplace=True)
                if value_obs(o) != before:
                    viol.append({'oracle': 'C08.stdcopy', 'case': payload, 'msg': 'editing the copy changed its source: %s, was %s' % (describe(o), before[0:2])})
                    continue
                c2 = mk(o)
                keep = value_obs(c2)
                o2 = AnsiString(o)          # the pool object itself stays as it is for the later cases
                src = mk(o2)
                o2.apply_formatting('italic', 0, None); o2 += 'q'
                if value_obs(src) != keep:
                    viol.append({'oracle': 'C08.stdcopy', 'case': payload, 'msg': 'editing the source changed the copy'})
    return viol, []
