"""Known findings: signatures are named predicates over a minimal failing case."""
import json


def _texts_of(v):
    s = json.dumps(v, default=str)
    return s


def _flag(v, name):
    return bool(v.get(name) or (v.get('failure') or {}).get(name) or (v.get('case') or {}).get(name))


SIGNATURES = {
    # the failing OBJECT's base text contains U+001B (set by the oracle that evaluated it - not "ESC somewhere in the history")
    'esc_in_base': lambda v: _flag(v, 'esc_in_base'),
    # base text (or an input text) contains U+001B
    'esc_in_text': lambda v: '\\u001b' in _texts_of(v.get('history', v.get('case', v))),
}


def match_known(known, v):
    for e in known:
        if e.get('status') != 'known':
            continue
        sig = SIGNATURES.get(e.get('signature'))
        if sig is None:
            continue
        orc = e.get('oracle_prefix')
        name = v.get('oracle', '') or ''
        if orc and not any(name.startswith(p) for p in orc):
            continue
        try:
            if sig(v):
                return e
        except Exception:
            pass
    return None
