"""Known findings: signatures are named predicates over a minimal failing case."""
import json


def _texts_of(v):
    s = json.dumps(v, default=str)
    return s


SIGNATURES = {
    # base text (or an input text) contains U+001B
    'esc_in_text': lambda v: '\\u001b' in _texts_of(v.get('history', v.get('case', v))),
}


def match_known(known, v):
    for e in known:
        if e.get('status') != 'known':
            continue
        sig = SIGNATURES.get(e.get('signature'))
        if sig is None:
            continue
        orc = e.get('oracle_prefix')
        name = v.get('oracle', '') or ''
        if orc and not any(name.startswith(p) for p in orc):
            continue
        try:
            if sig(v):
                return e
        except Exception:
            pass
    return None
