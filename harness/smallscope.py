"""Exhaustive small scope (thorough tier): every history  new 'abc' ; op1 ; op2 [; probe]  over a small
alphabet of operations - all ranges over 0..3 (plus a negative and an omitted bound), three settings
built to conflict (two foreground colours and bold), both topmost flags, removal of each setting and
of all settings, all slices, concatenation with itself and with the other object.  Support for the
correspondence (model = code on ALL these histories) and input for the statement-level oracles; it is
not a substitute for a theorem."""
import itertools

SETTINGS = [['str', 'red'], ['str', 'blue'], ['str', 'bold']]
BOUNDS = [0, 1, 2, 3]


def ops_for(i):
    out = []
    for f in SETTINGS:
        for st in BOUNDS:
            for en in BOUNDS:
                if st < en:
                    for top in (True, False):
                        out.append(['apply', i, f, st, en, top])
    for f in SETTINGS + [None]:
        for st in BOUNDS:
            for en in BOUNDS:
                if st < en:
                    out.append(['remove', i, (['str', '[' + {'red': '31', 'blue': '34', 'bold': '1'}[f[1]]] if f else None), st, en])
    for st in BOUNDS + [-1, None]:
        for en in BOUNDS + [-1, None]:
            out.append(['slice', i, st, en])
    out.append(['add', i, ['obj', i]])
    out.append(['iadd', i, ['str', 'x']])
    out.append(['pad', 2, i, 5, '*', True, True])
    out.append(['pad', 2, i, 4, '*', True, False])
    out.append(['simplify', i])
    return out


def histories(depth=2, limit=None):
    first = [['new', 0, 'abc', []]]
    base_ops = ops_for(0)
    n = 0
    for o1 in base_ops:
        if depth == 1:
            yield first + [o1]
            continue
        # the second operation acts on the newest object (a slice / sum creates object 1)
        creates = o1[0] in ('slice', 'add') or (o1[0] == 'pad' and not o1[5])
        tgt = 1 if creates else 0
        for o2 in ops_for(tgt):
            h = first + [o1, o2]
            # close with a concatenation probe so that anything left open shows
            h.append(['add', (2 if (o2[0] in ('slice', 'add')) else tgt), ['str', 'Z']])
            yield h
            n += 1
            if limit and n >= limit:
                return


def seam_histories(full=False):
    """Seam configurations for concatenation: a left operand 'abc' with three settings (values from
    {red, blue, green}, equal values allowed) applied in every order with every start and all running to
    the end of the text - so that they stop together exactly at the seam, in every stop order - and a
    right operand 'xy' that starts with every ordered selection of one or two of the values (or red, blue,
    red); then a + b and a probe (result + 'Z').  quick: the lefts with an equal-valued pair whose starts
    are a permutation of 0,1,2 (126 x 10); thorough: all 729 x 10."""
    vals = ['red', 'blue', 'green']
    rights = [[a] for a in vals] + [[a, b] for a in vals for b in vals if a != b] + [['red', 'blue', 'red']]
    for f in itertools.product(vals, repeat=3):
        for st in itertools.product([0, 1, 2], repeat=3):
            interesting = len(set(f)) < 3 and sorted(st) == [0, 1, 2]
            if not full and not interesting:
                continue
            left = [['new', 0, 'abc', []]] + [['apply', 0, ['str', f[k]], st[k], None, True] for k in range(3)]
            for r in rights:
                yield left + [['new', 0, 'xy', [['str', x] for x in r]], ['add', 0, ['obj', 1]], ['add', 2, ['str', 'Z']]]
