"""Build step of a check: translate /repo's tables, make the Coq development (full .vo), audit the
property file (Print Assumptions, forbidden vernacular), rebuild the extracted driver."""
import fcntl, os, re, subprocess, time

ROOT = os.path.dirname(os.path.dirname(os.path.abspath(__file__)))
COQ = os.path.join(ROOT, 'coq')
SRC = os.environ.get('VERIF_SRC', '/repo/src')
FORBIDDEN = re.compile(r'\b(Admitted|admit|Axiom|Axioms|Parameter|Parameters|Conjecture|Conjectures|Hypothesis|Hypotheses|Variable|Variables)\b|Unset\s+Guard|bypass_check|Admit\s+Obligations|type-in-type|impredicative-set')
ALLOWED_AXIOMS = set()        # the development is axiom free; anything Print Assumptions lists is reported


def sh(cmd, timeout=3000, cwd=ROOT):
    p = subprocess.run(cmd, shell=True, cwd=cwd, capture_output=True, text=True, timeout=timeout)
    out = '\n'.join(l for l in (p.stdout + p.stderr).split('\n') if 'conda.cli.condarc' not in l)
    return p.returncode, out


def strip_comments(text):
    out, depth, i = [], 0, 0
    while i < len(text):
        if text.startswith('(*', i):
            depth += 1
            i += 2
        elif text.startswith('*)', i) and depth:
            depth -= 1
            i += 2
        else:
            if not depth:
                out.append(text[i])
            i += 1
    return ''.join(out)


def deps_of(vfile):
    """transitive .v dependencies inside the project (from coqdep's output)"""
    dfile = os.path.join(COQ, '.Makefile.coq.d')
    deps = {}
    if os.path.exists(dfile):
        for line in open(dfile).read().replace('\\\n', ' ').split('\n'):
            if ':' not in line:
                continue
            lhs, rhs = line.split(':', 1)
            tgt = [x for x in lhs.split() if x.endswith('.vo')]
            if not tgt:
                continue
            deps[tgt[0][:-1]] = [x[:-1] for x in rhs.split() if x.endswith('.vo') and not x.startswith('/')]
    seen, todo = set(), [vfile]
    while todo:
        f = todo.pop()
        if f in seen:
            continue
        seen.add(f)
        todo += deps.get(f, [])
    return sorted(seen)


def build(prop_files, thorough=False):
    """prop_files: Properties/Cxx.v (relative to coq/).  -> dict with status and details"""
    info = {'translate_ok': False, 'make_ok': False, 'obligations': 0, 'discharged': 0, 'assumptions': [],
            'axioms_reported': [], 'forbidden': [], 'errors': [], 'cone': [], 'wall_s': 0.0}
    t0 = time.time()
    os.makedirs(os.path.join(ROOT, 'build'), exist_ok=True)
    lock = open(os.path.join(ROOT, 'build', 'lock'), 'w')
    fcntl.flock(lock, fcntl.LOCK_EX)
    try:
        # tables: read from the imported package (tools/translate_rt.py); the AST reading of the source text
        # (tools/translate.py) is the cross-check below - where it recognises the source it must agree entry by entry
        rc, out = sh('PYTHONPATH=%s PYTHONDONTWRITEBYTECODE=1 /venv/bin/python tools/translate_rt.py coq/Gen' % SRC)
        lines = [l for l in out.strip().split('\n') if l.startswith('TRANSLATE')]
        info['translate'] = lines[-1] if lines else (out.strip().split('\n')[-1][:300] if out.strip() else '')
        info['translate_ok'] = (rc == 0)
        translate_failed = (rc != 0)
        # four small functions: translated where the source shape is known, reference form + enumerated correspondence
        # (harness/fncorr.py) where it is not
        rcf, outf = sh('python3 tools/translate_fns.py %s/ansi_string coq/Gen' % SRC)
        info['translate_fns'] = outf.strip().split('\n')[-1] if outf.strip() else ''
        translate_fns_failed = (rcf != 0)
        m = re.search(r'untranslated=(.*)$', info['translate_fns'])
        info['untranslated_fns'] = [] if not m or m.group(1).strip() == '-' else [x.strip() for x in m.group(1).split(' ; ')]
        rct, outt = sh('PYTHONPATH=%s PYTHONDONTWRITEBYTECODE=1 /venv/bin/python -m harness.tablecheck' % SRC)
        info['tablecheck'] = [l for l in outt.strip().split('\n') if l.startswith('TABLECHECK')][:8]
        tablecheck_failed = (rct != 0) and not translate_failed
        if not os.path.exists(os.path.join(COQ, 'Makefile.coq')) or \
                os.path.getmtime(os.path.join(COQ, '_CoqProject')) > os.path.getmtime(os.path.join(COQ, 'Makefile.coq')):
            sh('coq_makefile -f _CoqProject -o Makefile.coq', cwd=COQ)
        os.makedirs(os.path.join(ROOT, 'build', 'ocaml'), exist_ok=True)
        rc, out = sh('timeout 3000 make -k -f Makefile.coq -j12', cwd=COQ)
        info['make_ok'] = (rc == 0)
        make_errors = []
        if rc != 0:
            errs = re.findall(r'File "\./([^"]+)", line (\d+)[^\n]*\n((?:(?!File ").*\n){0,12})', out)
            for f, ln, msg in errs:
                make_errors.append((f, '%s:%s: %s' % (f, ln, ' '.join(msg.split())[:400])))
        info['errors_outside_cone'] = []
        # the extracted driver
        rc2, out2 = sh('make driver SRC=%s/ansi_string' % SRC) if info['make_ok'] else (0, '')
        if not os.path.exists(os.path.join(ROOT, 'build', 'ocaml', 'driver')):
            rc2, out2 = sh('cp ocaml/driver.ml build/ocaml/driver.ml && cd build/ocaml && ocamlfind ocamlopt -O3 -w -a model.mli model.ml driver.ml -o driver')
        info['driver_ok'] = os.path.exists(os.path.join(ROOT, 'build', 'ocaml', 'driver'))
        # model and driver must be in step with the extracted code
        mo = os.path.join(ROOT, 'build', 'ocaml')
        if info['driver_ok'] and os.path.getmtime(os.path.join(mo, 'model.ml')) > os.path.getmtime(os.path.join(mo, 'driver')):
            rc2, out2 = sh('cp ocaml/driver.ml build/ocaml/driver.ml && cd build/ocaml && ocamlfind ocamlopt -O3 -w -a model.mli model.ml driver.ml -o driver')
        for pf in prop_files:
            cone = deps_of(pf)
            info['cone'] = sorted(set(info['cone']) | set(cone))
            # only what lies in this property's dependency cone can break it
            if translate_failed and any(c.startswith('Gen/') and c != 'Gen/Fns.v' for c in cone):
                info['errors'].append('translator: ' + info['translate'])
            if translate_fns_failed and 'Gen/Fns.v' in cone:
                info['errors'].append('function translator: ' + info['translate_fns'])
            if tablecheck_failed and any(c.startswith('Gen/') and c != 'Gen/Fns.v' for c in cone):
                info['errors'].append('generated tables differ from the imported module: ' + '; '.join(info['tablecheck'])[:600])
            for f, msg in make_errors:
                (info['errors'] if f in cone else info['errors_outside_cone']).append(msg)
            src = open(os.path.join(COQ, pf)).read()
            theorems = re.findall(r'^\s*(?:Theorem|Corollary)\s+(\w+)', strip_comments(src), re.M)
            gen_obl = []
            for c in cone:
                if re.match(r'Proofs/Gen\w+\.v$', c):
                    gen_obl += re.findall(r'^\s*(?:Theorem|Lemma)\s+(\w+)', strip_comments(open(os.path.join(COQ, c)).read()), re.M)
            info['obligations'] += len(theorems) + len(gen_obl)
            info['theorems'] = info.get('theorems', []) + theorems
            # forbidden vernacular anywhere in the cone (comments stripped)
            for c in cone:
                p = os.path.join(COQ, c)
                if not os.path.exists(p):
                    continue
                txt = strip_comments(open(p).read())
                for m in FORBIDDEN.finditer(txt):
                    # Variable/Hypothesis are allowed inside a Section
                    if m.group(0) in ('Variable', 'Variables', 'Hypothesis', 'Hypotheses'):
                        before = txt[:m.start()]
                        if len(re.findall(r'^\s*Section\s', before, re.M)) > len(re.findall(r'^\s*End\s', before, re.M)):
                            continue
                    info['forbidden'].append('%s: %s' % (c, m.group(0)))
            vo = os.path.join(COQ, pf[:-2] + '.vo')
            built = os.path.exists(vo) and all(
                os.path.exists(os.path.join(COQ, c[:-2] + '.vo')) and
                os.path.getmtime(os.path.join(COQ, c[:-2] + '.vo')) >= os.path.getmtime(os.path.join(COQ, c))
                for c in cone)
            if not built:
                info['errors'].append('%s did not build' % pf)
                continue
            # audit: Print Assumptions for EVERY theorem of the property file (and the generated-table
            # obligations of its cone), asked in a separate file so that no theorem can escape it
            os.makedirs(os.path.join(ROOT, 'build', 'audit'), exist_ok=True)
            mod = pf[:-2].replace('/', '.')
            audit_v = os.path.join(ROOT, 'build', 'audit', os.path.basename(pf)[:-2] + '_audit.v')
            gen_mods = sorted(set(c[:-2].replace('/', '.') for c in cone if re.match(r'Proofs/Gen\w+\.v$', c)))
            with open(audit_v, 'w') as fh:
                fh.write('From AS Require Import %s.\n' % mod)
                for gm in gen_mods:
                    fh.write('From AS Require %s.\n' % gm)
                for th in theorems:
                    fh.write('Print Assumptions %s.\n' % th)
                for c in cone:
                    if re.match(r'Proofs/Gen\w+\.v$', c):
                        for g in re.findall(r'^\s*(?:Theorem|Lemma)\s+(\w+)', strip_comments(open(os.path.join(COQ, c)).read()), re.M):
                            fh.write('Print Assumptions AS.%s.%s.\n' % (c[:-2].replace('/', '.'), g))
            rc3, out3 = sh('timeout 900 coqc -Q . AS %s -o %s' % (audit_v, audit_v[:-2] + '.vo'), cwd=COQ)
            if rc3 != 0:
                info['errors'].append('%s: audit compile failed: %s' % (pf, out3[-300:]))
                continue
            blocks = [b.strip() for b in re.split(r'(?=Closed under the global context|Axioms:)', out3) if b.strip()]
            closed = sum(1 for b in blocks if b.startswith('Closed under the global context'))
            axioms = [b for b in blocks if b.startswith('Axioms:')]
            info['assumptions'].append('%s: Print Assumptions asked for %d theorem(s)/obligation(s): %d closed under the global context, %d with axioms' % (
                pf, len(theorems) + len(gen_obl), closed, len(axioms)))
            for a in axioms:
                info['axioms_reported'].append(' '.join(a.split())[:300])
            if closed + len(axioms) != len(theorems) + len(gen_obl):
                info['errors'].append('%s: audit answered %d of %d Print Assumptions' % (pf, closed + len(axioms), len(theorems) + len(gen_obl)))
                continue
            info['discharged'] += len(theorems) + len(gen_obl)
            if thorough:
                # independent re-check of the compiled property file and everything it depends on
                mod = 'AS.' + pf[:-2].replace('/', '.')
                rc4, out4 = sh('timeout 3000 coqchk -silent -o -Q . AS %s' % mod, cwd=COQ, timeout=3100)
                summary = out4[out4.index('CONTEXT SUMMARY'):] if 'CONTEXT SUMMARY' in out4 else out4[-400:]
                info['coqchk'] = ' '.join(summary.split())[:700]
                if rc4 != 0:
                    info['errors'].append('coqchk failed on %s: %s' % (mod, out4[-300:]))
                elif '* Axioms: <none>' not in summary:
                    info['axioms_reported'].append('coqchk: ' + info['coqchk'][:300])
    finally:
        fcntl.flock(lock, fcntl.LOCK_UN)
        lock.close()
    info['wall_s'] = round(time.time() - t0, 1)
    info['proof_ok'] = (not info['errors'] and not info['forbidden']
                        and not info['axioms_reported'] and info['discharged'] == info['obligations'] and info['obligations'] > 0)
    return info
