"""Common engine of every check: build/audit, corpus + generated cases, correspondence,
statement-level oracles, shrinking, known findings, evidence, exit code."""
import hashlib, json, os, random, sys, time

from . import build as buildmod

ROOT = os.path.dirname(os.path.dirname(os.path.abspath(__file__)))


class Case:
    """one explored case: kind ('history' | 'direct:<name>'), payload (JSON-able), outcome"""
    __slots__ = ('kind', 'payload', 'nontrivial')

    def __init__(self, kind, payload, nontrivial=True):
        self.kind, self.payload, self.nontrivial = kind, payload, nontrivial


class Report:
    def __init__(self, prop, tier, seed):
        self.prop, self.tier, self.seed = prop, tier, seed
        self.evaluations = 0
        self.hashes = set()
        self.samples = []
        self.violations = []          # dicts: {'kind': 'oracle'|'correspondence'|'proof', 'case':..., 'detail':...}
        self.known_hits = {}
        self.dist = {}
        self.notes = []
        self.rule = ''
        self.xreqs = []            # requests re-evaluated inside Coq (extraction cross-check)
        self.xchecked = 0
        self.t0 = time.time()

    def count(self, payload, nontrivial=True):
        self.evaluations += 1
        if nontrivial:
            self.hashes.add(hashlib.sha1(json.dumps(payload, sort_keys=True, default=str).encode()).hexdigest())
        if len(self.samples) < 4 and nontrivial:
            self.samples.append(payload)

    def bump(self, key, n=1):
        self.dist[key] = self.dist.get(key, 0) + n

    def violation(self, kind, case, detail):
        self.violations.append({'kind': kind, 'case': case, 'detail': detail})


def load_known(prop):
    p = os.path.join(ROOT, 'known_findings.json')
    if not os.path.exists(p):
        return []
    data = json.load(open(p))
    return [e for e in data.get('findings', []) if prop in e.get('properties', [e.get('property')])]


def write_replay(prop, v, extra=None):
    d = os.path.join(ROOT, 'replays', prop)
    os.makedirs(d, exist_ok=True)
    body = dict(v)
    body['property'] = prop
    if extra:
        body.update(extra)
    txt = json.dumps(body, indent=1, default=str, sort_keys=True)
    name = hashlib.sha1(txt.encode()).hexdigest()[:12] + '.json'
    path = os.path.join(d, name)
    with open(path, 'w') as f:
        f.write(txt)
    return path


def _cov_summary(prop):
    """lines / branch sides of /repo's ansi_string package this run's cases went through (harness/covmon.py); the raw
    data is kept in build/cov/<id>.json for tools/coverage_gaps.py"""
    try:
        from . import covmon
        s = covmon.summary()
        if s is not None:
            os.makedirs(os.path.join(ROOT, 'build', 'cov'), exist_ok=True)
            with open(os.path.join(ROOT, 'build', 'cov', prop + '.json'), 'w') as f:
                json.dump(covmon.dump(), f)
            if os.environ.get('VERIF_ARGCOV'):
                with open(os.path.join(ROOT, 'build', 'cov', prop + '.args'), 'w') as f:
                    json.dump(covmon.dump_args(), f)
        return s if s is not None else 'not measured (interpreter without sys.monitoring)'
    except Exception as e:  # noqa
        return 'not measured: %s' % e


def write_evidence(rep, binfo, level_rule, trusted, assumptions):
    ev = {
        'property_id': rep.prop,
        'tier': rep.tier,
        'seed': rep.seed,
        'level': 'proof',
        'coverage': {
            'obligations': binfo['obligations'],
            'discharged': binfo['discharged'] if binfo.get('proof_ok') else min(binfo['discharged'], max(0, binfo['obligations'] - 1)),
            'checker_cmd': 'make -C /verif setup (coqc 8.16.1, full .vo) ; coqc -Q . AS Properties/%s.v (Print Assumptions)' % rep.prop,
            'trusted_base': trusted,
            'theorems': binfo.get('theorems', []),
            'print_assumptions': binfo['assumptions'],
            'axioms_reported': binfo['axioms_reported'],
            'build_errors': binfo['errors'],
            'forbidden_vernacular_found': binfo['forbidden'],
            'coqchk': binfo.get('coqchk', 'not run in the quick tier'),
            'translator': binfo.get('translate', ''),
            'translator_cross_check': binfo.get('tablecheck', []),
            'function_translator': binfo.get('translate_fns', ''),
            'build_errors_outside_cone': binfo.get('errors_outside_cone', []),
            'cone': binfo['cone'],
            'evaluations': rep.evaluations,
            'distinct_nontrivial': len(rep.hashes),
            'rule': rep.rule or level_rule,
            'samples': rep.samples[:4],
            'input_distribution': rep.dist,
            'notes': rep.notes,
            'known_findings_confirmed': sorted(rep.known_hits),
            'extraction_cross_checked_requests': rep.xchecked,
            'implementation_code_exercised': _cov_summary(rep.prop),
            'exhaustive': False,
        },
        'assumptions': assumptions,
        'wall_s': round(time.time() - rep.t0, 1),
        'violations': len(rep.violations),
    }
    os.makedirs(os.path.join(ROOT, 'evidence'), exist_ok=True)
    with open(os.path.join(ROOT, 'evidence', rep.prop + '.json'), 'w') as f:
        json.dump(ev, f, indent=1, default=str)
    return ev
