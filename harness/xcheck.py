"""Extraction cross-check (DESIGN 4.5): the same requests are evaluated inside Coq with vm_compute
(coqc on a generated cases file) and by the extracted OCaml driver; the answers must be identical.
A difference is a defect of the machinery (extraction, driver.ml or the decoder), reported as an
internal error, never as a property violation."""
import os, re, subprocess
from . import model, sx

ROOT = os.path.dirname(os.path.dirname(os.path.abspath(__file__)))
COQ = os.path.join(ROOT, 'coq')


class ExtractionMismatch(Exception):
    pass


def coq_lit(x):
    if isinstance(x, bool):
        return 'A %d' % (1 if x else 0)
    if isinstance(x, int):
        return 'A (%d)' % x
    if isinstance(x, str):
        return 'L [' + '; '.join('A %d' % ord(c) for c in x) + ']'
    if x is None:
        return 'L []'
    return 'L [' + '; '.join(coq_lit(y) for y in x) + ']'


def flat(x):
    if isinstance(x, int):
        return [0, x]
    out = [1, len(x)]
    for y in x:
        out += flat(y)
    return out


def crosscheck(requests, tag='x'):
    """-> number of requests compared; raises ExtractionMismatch"""
    if not requests:
        return 0
    answers = model.ask(requests)
    want = []
    for a in answers:
        want += flat(a)
    d = os.path.join(ROOT, 'build', 'xcheck')
    os.makedirs(d, exist_ok=True)
    path = os.path.join(d, 'cases_%s_%d.v' % (tag, os.getpid()))
    with open(path, 'w') as f:
        f.write('From AS Require Import Base.\nFrom AS.Model Require Import Entry Flat.\nLocal Open Scope Z_scope.\n')
        f.write('Definition reqs : list sx := [\n  ' + ';\n  '.join(coq_lit(sx.loads(sx.dumps(r))) for r in requests) + '].\n')
        f.write('Eval vm_compute in run_flat reqs.\n')
    p = subprocess.run('ulimit -s unlimited 2>/dev/null; timeout 900 coqc -Q . AS %s -o %s' % (path, path[:-2] + '.vo'),
                       shell=True, cwd=COQ, capture_output=True, text=True)
    out = p.stdout
    for ext in ('.v', '.vo', '.glob', '.vok', '.vos'):
        try:
            os.remove(path[:-2] + ext)
        except OSError:
            pass
    if p.returncode != 0:
        raise ExtractionMismatch('coqc failed on the cross-check cases: ' + (p.stderr or out)[-400:])
    body = out[out.index('='):] if '=' in out else out
    body = body[:body.rindex(':')] if ':' in body else body
    got = [int(x) for x in re.findall(r'-?\d+', body)]
    if got != want:
        k = next((i for i, (a, b) in enumerate(zip(got, want)) if a != b), min(len(got), len(want)))
        raise ExtractionMismatch('in-kernel evaluation and extracted driver differ at flat position %d (%d vs %d values)' % (k, len(got), len(want)))
    return len(requests)
