"""development helper: exploration half of a check only (no Coq build):  python -m harness.devprop C05 [tier] [seed]"""
import sys, random, json, time, os
from . import engine
from .props import PROPS
from .term import Term

def main():
    prop = sys.argv[1]
    tier = sys.argv[2] if len(sys.argv) > 2 else 'quick'
    seed = int(sys.argv[3]) if len(sys.argv) > 3 else 20260926
    rep = engine.Report(prop, tier, seed)
    t0 = time.time()
    ov, dv = PROPS[prop]['run'](rep, random.Random(seed), tier, Term())
    print('%s %s: %d cases, %d distinct, oracle violations %d, divergences %d, %.0fs' % (prop, tier, rep.evaluations, len(rep.hashes), len(ov), len(dv), time.time() - t0))
    for v in ov[:int(os.environ.get('SHOW', '4'))]:
        print('ORACLE', json.dumps(v, default=str)[:1500])
    for d in dv[:int(os.environ.get('SHOW', '4'))]:
        print('DIV', json.dumps(d, default=str)[:1500])
    for n in rep.notes:
        print('NOTE', n)
main()
