"""History generator: picks the next operation looking at the implementation's current pool
(text lengths and change points), so that ranges fall on / next to / between change points."""
from .gen import Gen, points_of, ALPHA

ALL_OPS = ['new', 'from', 'apply', 'remove', 'clear', 'slice', 'index', 'clip', 'add', 'iadd', 'join', 'pad',
           'replace', 'expandtabs', 'strip', 'removeprefix', 'removesuffix', 'split', 'splitlines', 'partition',
           'assign', 'case', 'simplify', 'fmatch', 'umatch', 'tostr', 'sat', 'find', 'eq', 'iter']

DEFAULT_W = {'new': 3, 'from': 1, 'apply': 8, 'remove': 4, 'clear': 0.3, 'slice': 4, 'index': 1, 'clip': 1.5,
             'add': 3, 'iadd': 3, 'join': 1, 'pad': 2, 'replace': 2, 'expandtabs': 0.3, 'strip': 1.5,
             'removeprefix': 0.5, 'removesuffix': 0.5, 'split': 1.5, 'splitlines': 0.5, 'partition': 1,
             'assign': 1, 'case': 1, 'simplify': 1, 'fmatch': 1, 'umatch': 0.7, 'tostr': 1, 'sat': 0.5,
             'find': 1, 'eq': 0.5, 'iter': 0.3}

SPECS = ['', '5', '<6', '>6', '^7', '*<6', '*>5', ' ->6', ' +^6', ':<7', '+<5', '-^8', '0>4', '9^3',
         ':red', '<6:bold', 'x->7:red;bold', '^6:[1', ':', '::red', '<', '>', '+5', ' 5', 'x5', '<<3', '^^4',
         '-<5:blue', '>8:rgb(1,2,3)', ':nosuch', '3:1;31', ':<:red',
         '\n<3', '\n->4:red', '5\n', 'x<4\n', ':red\n', '\n', '\n5', '\n^6']      # newline: a fill like any other, never swallowed at the end
PATTERNS = [('a', False), ('ab', False), ('A', False), ('b+', True), ('a*', True), ('.', False), ('.', True),
            ('(a|b)b', True), ('', False), ('[ab]', True), ('a.b', False), (' ', False), (r'\b', True)]


class HistGen:
    def __init__(self, rng, weights=None, kinds=(0, 1), odd=False, bad=0.0, max_pool=7, unicode_=True, maxlen=8, esc=0.0, sgr_operands=0.0):
        self.r = rng
        self.g = Gen(rng, odd=odd, bad=bad, unicode_=unicode_, esc=esc)
        self.sgr_operands = sgr_operands      # probability that a plain-str operand of + / += / join carries SGR sequences of its own
        w = dict(DEFAULT_W)
        if weights is not None:
            w = {k: weights.get(k, 0) for k in ALL_OPS}
        self.names = [k for k in ALL_OPS if w.get(k, 0) > 0]
        self.weights = [w[k] for k in self.names]
        self.kinds = kinds
        self.max_pool = max_pool
        self.maxlen = maxlen

    def pick_obj(self, P, prefer_string=False):
        r = self.r
        short = [i for i, o in enumerate(P) if len(o.base_str) <= 16]
        if short and r.random() < 0.8:
            c = [i for i in short if hasattr(P[i], '_fmts')] if prefer_string else short
            if c:
                return r.choice(c)
        if prefer_string:
            c = [i for i, o in enumerate(P) if hasattr(o, '_fmts')]
            if c:
                return r.choice(c)
        # favour recent objects a little
        if len(P) > 3 and r.random() < 0.5:
            return r.randrange(len(P) - 3, len(P))
        return r.randrange(len(P))

    def operand(self, P):
        r = self.r
        if r.random() < 0.65:
            return ['obj', self.pick_obj(P)]
        if self.sgr_operands and r.random() < self.sgr_operands:
            # a str with escape sequences is read as formatted text of its own: styles left open at its end must not reach
            # the next operand, and each operand is read separately
            return ['str', r.choice(['\x1b[1mT', '\x1b[31mab\x1b[m', '\x1b[4mu\x1b[24m.', '\x1b[38;5;214mq', 'a\x1b[3mb', '\x1b[1m', '\x1b[1;31mxy', ': '])]
        return ['str', self.g.text(0, 4)]

    def sub_of(self, base):
        """a pattern likely to occur in base"""
        r = self.r
        if base and r.random() < 0.7:
            i = r.randrange(len(base))
            return base[i:i + r.choice([1, 1, 2, 2, 3])]
        return r.choice(['a', 'b', 'ab', 'ba', ' ', '', 'aa', 'abab', ','])

    def next_op(self, P):
        r, g = self.r, self.g
        if not P:
            return ['new', r.choice(self.kinds), g.text(1, self.maxlen), g.forms(0, 2)]
        name = r.choices(self.names, self.weights)[0]
        if len(P) >= self.max_pool and name in ('new', 'from', 'slice', 'index', 'add', 'join', 'split', 'splitlines',
                                                'partition', 'iter'):
            name = r.choice([n for n in ('apply', 'remove', 'iadd', 'clip', 'tostr', 'find') if n in self.names] or ['tostr'])
        if name == 'new':
            return ['new', r.choice(self.kinds), g.text(0, self.maxlen), g.forms(0, 2)]
        if name in ('add', 'iadd', 'join', 'replace', 'pad', 'expandtabs', 'from') and max(len(o.base_str) for o in P) > 16:
            # keep texts short: exponential growth through self-referential replace/concat only slows the run down
            if any(len(o.base_str) <= 16 for o in P) and r.random() < 0.5:
                pass
            else:
                name = r.choice([n for n in ('slice', 'clip', 'strip', 'apply', 'remove', 'assign') if n in self.names] or ['new'])
                if name == 'new':
                    return ['new', r.choice(self.kinds), g.text(0, self.maxlen), g.forms(0, 2)]
        i = self.pick_obj(P, prefer_string=name in ('assign',))
        o = P[i]
        base = o.base_str
        n = len(base)
        pts = points_of(o)
        inplace = r.random() < 0.5
        if name == 'from':
            return ['from', r.choice(self.kinds), i, g.forms(0, 1) if r.random() < 0.5 else []]
        if name == 'apply':
            f = g.form() if r.random() < 0.85 else ['list', g.forms(0, 3)]
            return ['apply', i, f, g.bound(n, pts) if r.random() < 0.8 else 0, g.bound(n, pts), r.random() < 0.6]
        if name == 'remove':
            if r.random() < 0.25:
                f = None
            elif r.random() < 0.6 and n:
                # something that is actually there
                ss = o.ansi_settings_at(r.randrange(n))
                f = ['str', '[' + str(r.choice(ss))] if ss else g.form()
            else:
                f = g.form()
            return ['remove', i, f, g.bound(n, pts) if r.random() < 0.8 else 0, g.bound(n, pts)]
        if name == 'clear':
            return ['clear', i]
        if name == 'slice':
            return ['slice', i, g.bound(n, pts), g.bound(n, pts)]
        if name == 'index':
            return ['index', i, r.choice([0, n - 1, -1, -n, n, -n - 1, n // 2] + ([r.randrange(n)] if n else []))]
        if name == 'clip':
            return ['clip', i, g.bound(n, pts), g.bound(n, pts), inplace]
        if name == 'add':
            return ['add', i, self.operand(P)]
        if name == 'iadd':
            return ['iadd', i, self.operand(P)]
        if name == 'join':
            return ['join', r.choice(self.kinds), [self.operand(P) for _ in range(r.randint(0, 3))]]
        if name == 'pad':
            which = r.choice([0, 1, 2, 2, 3])
            w = r.choice([0, n - 1, n, n + 1, n + 2, n + 3, n + 4, n + 5, -3])
            fill = r.choice([' ', '*', ':', '+', '-', '0', 'é']) if r.random() > self.g.bad else r.choice(['', 'ab'])
            return ['pad', which, i, w, fill, inplace, r.random() < 0.6]
        if name == 'replace':
            old = self.sub_of(base)
            if old == '' and r.random() < 0.7:
                old = r.choice(ALPHA)
            new = self.operand(P) if r.random() < 0.6 else ['str', r.choice(['', 'x', 'ab', 'ba', 'aa', old + old])]
            return ['replace', i, old, new, r.choice([-1, -1, -1, 0, 1, 2]), inplace]
        if name == 'expandtabs':
            return ['expandtabs', i, r.choice([0, 1, 2, 4]), inplace]
        if name == 'strip':
            dl, dr = r.choice([(True, True), (True, False), (False, True)])
            chars = None if r.random() < 0.4 else r.choice(['a', 'ab', ' ', 'b ', '', base[:1], base[-1:]])
            return ['strip', i, chars, dl, dr, inplace]
        if name == 'removeprefix':
            return ['removeprefix', i, r.choice([base[:1], base[:2], 'a', '', 'zz', base]), inplace]
        if name == 'removesuffix':
            return ['removesuffix', i, r.choice([base[-1:], base[-2:], 'a', '', 'zz', base]), inplace]
        if name == 'split':
            sep = None if r.random() < 0.3 else self.sub_of(base)
            if sep == '' and r.random() < 0.8:
                sep = 'a'
            return ['split', i, sep, r.choice([-1, -1, 0, 1, 2]), r.random() < 0.4]
        if name == 'splitlines':
            return ['splitlines', i, r.random() < 0.5]
        if name == 'partition':
            sep = self.sub_of(base)
            if sep == '' and r.random() < 0.9:
                sep = 'b'
            return ['partition', i, sep, r.random() < 0.5]
        if name == 'assign' and not hasattr(o, '_fmts'):
            name = 'case'
        if name == 'assign':
            return ['assign', i, g.text(0, self.maxlen) if r.random() < 0.6 else base[:r.randint(0, n)] + g.text(0, 3)]
        if name == 'case':
            return ['case', i, r.randrange(6), inplace]
        if name == 'simplify':
            return ['simplify', i]
        if name in ('fmatch', 'umatch'):
            if r.random() < 0.5:
                pat, regex = self.sub_of(base), False
            else:
                pat, regex = r.choice(PATTERNS)
            forms = g.forms(0, 2) if name == 'fmatch' or r.random() < 0.7 else [['other', False]]
            return [name, i, pat, forms, regex, r.random() < 0.5, r.choice([-1, -1, 0, 1, 2])]
        if name == 'tostr':
            spec = None if r.random() < 0.3 else r.choice(SPECS)
            if spec and r.random() < 0.3:
                spec = r.choice(['', '*', ':', '+', '-', '0', 'x']) + r.choice(['', '+', '-']) + r.choice('<>^') + str(r.choice([0, n, n + 1, n + 2, n + 5]))
                if r.random() < 0.5:
                    spec += ':' + r.choice(['red', 'bold;blue', '[1', '1;31', 'nosuch'])
            return ['tostr', i, spec, r.random() < 0.6, r.random() < 0.4, r.random() < 0.6]
        if name == 'sat':
            return ['sat', i, r.choice([0, n - 1, n, -1, n // 2, 10 ** 9])]
        if name == 'find':
            if n and r.random() < 0.7:
                ss = o.ansi_settings_at(r.randrange(n))
                f = ['list', [['setting', str(s)] for s in r.sample(ss, r.randint(1, len(ss)))]] if ss else g.form()
            else:
                f = g.form() if r.random() < 0.9 else ['list', []]
            return ['find', i, f, g.bound(n, pts) if r.random() < 0.7 else 0, g.bound(n, pts), r.random() < 0.4]
        if name == 'eq':
            return ['eq', i, self.pick_obj(P)]
        if name == 'iter':
            return ['iter', i]
        raise AssertionError(name)
