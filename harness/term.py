"""The specification's terminal (Spec/Terminal.v, extracted) as a batched, cached oracle."""
from . import model
from .sx import to_str


class Term:
    def __init__(self):
        self.runs = {}       # bytes -> (chars, [state per char], final state)
        self.styles = {}     # tuple(texts) -> state
        self.infos = {}      # setting text -> (valid, parsable, effect index or -1, well-formed)
        self.pending_runs = set()
        self.pending_styles = set()
        self.pending_infos = set()
        self.collecting = False
        self.queries = 0

    @staticmethod
    def _state(x):
        return tuple(None if not g else tuple(g[0]) for g in x)

    def run(self, s):
        if s in self.runs:
            return self.runs[s]
        if self.collecting:
            self.pending_runs.add(s)
            return None
        self.pending_runs.add(s)
        self.flush()
        return self.runs[s]

    def style(self, texts):
        k = tuple(texts)
        if k in self.styles:
            return self.styles[k]
        if self.collecting:
            self.pending_styles.add(k)
            return None
        self.pending_styles.add(k)
        self.flush()
        return self.styles[k]

    def info(self, text):
        if text in self.infos:
            return self.infos[text]
        if self.collecting:
            self.pending_infos.add(text)
            return None
        self.pending_infos.add(text)
        self.flush()
        return self.infos[text]

    def flush(self):
        rs = sorted(self.pending_runs)
        ss = sorted(self.pending_styles)
        ts = sorted(self.pending_infos)
        if not rs and not ss and not ts:
            return
        ans = model.ask([[4, r] for r in rs] + [[5, list(k)] for k in ss] + [[6, t] for t in ts], chunk=2000)
        for t, a in zip(ts, ans[len(rs) + len(ss):]):
            self.infos[t] = (bool(a[0]), bool(a[1]), a[2], bool(a[3]))
        self.pending_infos.clear()
        self.queries += len(ans)
        for r, a in zip(rs, ans[:len(rs)]):
            disp, fin = a
            self.runs[r] = (''.join(chr(c) for c, _ in disp), [self._state(st) for _, st in disp], self._state(fin))
        for k, a in zip(ss, ans[len(rs):]):
            self.styles[k] = self._state(a)
        self.pending_runs.clear()
        self.pending_styles.clear()

    def two_phase(self, fn):
        """run fn() once to collect terminal queries, flush, run again for real"""
        self.collecting = True
        try:
            fn()
        except Exception:
            pass
        self.collecting = False
        self.flush()
        return fn()

DEFAULT_STATE = tuple([None] * 14)
EFFECTS = ['BOLDNESS', 'ITALICS', 'UNDERLINE', 'OVERLINE', 'BLINKING', 'SWAP_BG_FG', 'VISIBILITY', 'CROSSED_OUT',
           'FONT_TYPE', 'SPACING', 'BOXING', 'FG_COLOR', 'BG_COLOR', 'UL_COLOR']
