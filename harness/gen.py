"""Generators: structured, mostly-valid operation histories over a pool of objects, driven by a
single random.Random so that every case replays from the seed."""
import random

ALPHA = 'ab'
TEXT_EXTRA = [' ', ' ', '\t', '\n', ',', 'A', 'é', 'ß', '1', ':', '\r\n', '\r']

# palettes built to conflict: two values and the clear code of several effect groups, extended
# colours, underline pairs, reset, unknown, verbatim multi-code, incomplete group, invalid text
NAME_FORMS = ['bold', 'faint', 'italic', 'red', 'blue', 'bg_red', 'bg_blue', 'underline', 'double_underline',
              'no_bold_faint', 'fg_default', 'no_underline', 'ul_red', 'dul_blue', 'orange', 'bg_purple',
              'BOLD', 'Fg Red', 'bg-blue', 'alt_font_1', 'default_font', 'overlined', 'no_overlined',
              'slow_blink', 'rapid_blink', 'crossed_out', 'framed', 'encircled', 'hide', 'swap_bg_fg']
INT_FORMS = [1, 2, 3, 4, 21, 22, 24, 31, 34, 39, 41, 44, 49, 53, 55, 10, 11, 90, 107, 0, 0, 20, 23]      # 0: the reset code, falsy as a Python value
STR_CODE_FORMS = ['1;31', '31;1', '38;5;214', '38;2;1;2;3', '48;5;21', '4;58;5;9', '1', '22', '0;1', ';', ';;', 'bold;', ';31', '1;;4', '73;italic', '38;7;red']
FN_FORMS = ['rgb(1,2,3)', 'bg_rgb(0x10, 0x20, 0x30)', 'ul_rgb(0xFF00FF)', 'dul_color256(7)', 'fg_colour256(0x10)',
            'rgb([300,2,3])', 'color256(255)']
VERBATIM_WF = ['[1;31', '[38;5;214', '[99', '[1', '[31', '[34', '[0', '[01', '[022', '[038;5;4', '[0031']   # well-formed groups (99: unknown code; leading zeros: a terminal reads decimal numbers)
VERBATIM_ODD = ['[38;5', '[38;2;1', '[m31', '[ 1', '[+1', '[1;', '[;', '[38;5;256', '[1~', '[4;31@', '[1?']     # ~ and @: both ends of the final-byte range
MEMBERS = ['BOLD', 'FAINT', 'ITALIC', 'RED', 'BLUE', 'BG_RED', 'UNDERLINE', 'DOUBLE_UNDERLINE', 'NO_BOLD_FAINT',
           'FG_ORANGE', 'UL_RED', 'DUL_GRAY', 'BG_INDIAN_RED', 'FG_DEFAULT', 'GREEN']
SETTING_TEXTS = ['1', '31', '34', '2', '38;5;214', '22', '4', '21', '10']
SETTING_TEXTS_ODD = ['1;4m', '4m', '1~', '1;31', '38;5', '1;;4',      # invalid / unparsable AnsiSetting objects
                     # other spellings of the numbers of SETTING_TEXTS: different settings (different text, different flags) that a
                     # lenient comparison - blanks stripped, int() - would take for the same
                     ' 1', '01', '+1', '031', ' 31', '1_0', '38;5;0214', '4 ']
BAD_FORMS = [['str', 'nosuchname'], ['int', -1], ['str', 'rgb(1,2)'], ['str', 'rgb(zz)'], ['other', True],
             ['other', False], ['str', '-5'], ['list', [['str', 'red'], ['selfref']]], ['str', '['], ['str', 'rgb(1,2,x)']]


ESC_PIECES = ['\x1b[2J', '\x1b[1;2H', '\x1b[1M', '\x1b[3~', '\x1b[', '\x1b', '\x1b[1m', '\x1b[31', '\x1b[m', '1m', '[', 'm']


class Gen:
    def __init__(self, rng, odd=False, bad=0.0, unicode_=True, esc=0.0):
        self.r = rng
        self.odd = odd          # allow ill-formed verbatim settings
        self.bad = bad          # probability of a malformed argument
        self.unicode = unicode_
        self.esc = esc          # probability that a text carries pieces of control sequences (U+001B in the text)

    # ---------------- atoms
    def text(self, lo=0, hi=8):
        r = self.r
        n = r.choice([0, 1, 1, 2, 3, 3, 4, 5, 6, 8, hi]) if hi > 1 else r.randint(lo, hi)
        n = max(lo, min(hi, n))
        out = []
        for _ in range(n):
            if r.random() < 0.25:
                c = r.choice(TEXT_EXTRA)
                if not self.unicode and not c.isascii():
                    c = 'b'
                out.append(c)
            else:
                out.append(r.choice(ALPHA))
        if self.esc and r.random() < self.esc:
            # complete non-SGR sequences, SGR-spelling text, unterminated and bare introducers, case-convertible final bytes
            for _ in range(r.choice([1, 1, 2])):
                out.insert(r.randint(0, len(out)), r.choice(ESC_PIECES))
        return ''.join(out)

    def simple_form(self):
        r = self.r
        k = r.random()
        if k < 0.30:
            return ['str', r.choice(NAME_FORMS)]
        if k < 0.42:
            return ['int', r.choice(INT_FORMS)]
        if k < 0.52:
            return ['str', r.choice(STR_CODE_FORMS)]
        if k < 0.60:
            return ['str', r.choice(FN_FORMS)]
        if k < 0.72:
            return ['member', r.choice(MEMBERS)]
        if k < 0.82:
            return ['setting', r.choice(SETTING_TEXTS + SETTING_TEXTS_ODD if self.odd and r.random() < 0.3 else SETTING_TEXTS)]
        if k < 0.94 or not self.odd:
            return ['str', r.choice(VERBATIM_WF)]
        return ['str', r.choice(VERBATIM_ODD)]

    def form(self, depth=0):
        r = self.r
        if self.bad and r.random() < self.bad:
            return r.choice(BAD_FORMS)
        k = r.random()
        if k < 0.70 or depth >= 2:
            return self.simple_form()
        if k < 0.80:
            return ['str', ';'.join(r.choice(NAME_FORMS + [str(x) for x in INT_FORMS]) for _ in range(r.randint(2, 3)))]
        if k < 0.88:
            # integer runs, possibly a colour group split over list items
            return ['list', [['int', x] for x in r.choice([[38, 5, 214], [1, 38, 5, 214], [38, 2, 1, 2, 3, 4], [4, 58, 5, 9], [1, 31], [38, 5], [0], [31, 0, 1], [73], [38, 7]])] + ([['str', r.choice(NAME_FORMS)]] if r.random() < 0.5 else [])]
        kind = 'list' if r.random() < 0.7 else 'tuple'
        if r.random() < 0.1:
            return [kind, [r.choice([['str', ''], ['list', []], ['str', ';']])]]      # truthy, but names no setting
        return [kind, [self.form(depth + 1) for _ in range(r.randint(0, 3))]]

    def forms(self, lo=0, hi=2):
        return [self.form() for _ in range(self.r.randint(lo, hi))]

    def bound(self, n, points=()):
        """an index chosen relative to the text length and to existing change points"""
        r = self.r
        k = r.random()
        if k < 0.15:
            return None
        cands = set([0, n, n - 1, 1, n // 2])
        for p in points:
            cands.update([p - 1, p, p + 1])
        if k < 0.75:
            return r.choice(sorted(cands))
        if k < 0.88:
            return -r.randint(1, n + 2)
        return r.choice([n + 1, n + 3, 10 ** 9, -10 ** 9]) if k > 0.96 else r.randint(0, n + 2)


def points_of(o):
    a = o._s if not hasattr(o, '_fmts') else o
    return sorted(a._fmts.keys())
