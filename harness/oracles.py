"""Statement-level oracles: each evaluates one property AS STATED on what the implementation did
(observations recorded by impl.run_history), using the extracted Coq specification (term.Term)
for everything that concerns display.  They never look at the model."""
import re
from .impl import FLAGS8
from .term import DEFAULT_STATE

# obs tuple indices
CLS, BASE, CHARS, RENDERS, VALID, PARSABLE, STRICT, PROBE, PAYLOAD, TABLE = range(10)
ALLSET = '1;3;4;5;7;8;9;11;26;51;53;31;41;58;5;1'
PRIOR = '\x1b[' + ALLSET + 'm'     # a terminal that is not in its default state
SGR_RE = re.compile('\x1b\\[[^\x40-\x7e]*m')
CSI_RE = re.compile('\x1b\\[([^\x40-\x7e]*)([\x40-\x7e]?)')
RESET_START_RE = re.compile('^\x1b\\[0?(;[^\x40-\x7e]*)?m')


def texts(l):
    return [t for (_, t) in l]


def prec_equiv(term, a, b):
    """same settings, same precedence among conflicting settings (text lists)"""
    if sorted(a) != sorted(b):
        return False
    if a == b:
        return True
    infos = {t: term.info(t) for t in set(a)}
    if any(v is None for v in infos.values()):
        return True         # collecting phase
    def conflict(x, y):
        ex, ey = infos[x][2], infos[y][2]
        return ex < 0 or ey < 0 or ex == ey
    # relative order of every conflicting pair: compare the sequences restricted to each conflict class
    # (pairwise check, lists are short)
    def pairs(l):
        out = []
        for i in range(len(l)):
            for j in range(i + 1, len(l)):
                if l[i] != l[j] and conflict(l[i], l[j]):
                    out.append((l[i], l[j]))
        return sorted(out)
    return pairs(a) == pairs(b)


def all_wf(term, ob):
    ts = set(t for l in ob[CHARS] for (_, t) in l)
    infos = [term.info(t) for t in ts]
    if any(i is None for i in infos):
        return None
    return all(i[3] for i in infos)


# ------------------------------------------------------------------ C01
def o_render(term, ob, fails, where):
    """C01 on one observed value"""
    base = ob[BASE]
    blank = None
    if '\x1b' in base:
        if not cuts_closed(ob):
            return 'esc'                   # known finding K1
        # theorem C01_display_tokens_esc: the rendering read with the library's control-sequence grammar, the characters of
        # rejected (non-SGR) sequences counting as characters - here: each such sequence replaced by as many ordinary characters
        blank = lambda w: CSI_RE.sub(lambda m: m.group(0) if m.group(2) == 'm' else 'Z' * len(m.group(0)), w).replace('\x1b', 'Z')
        base = blank(base)
    wf = all_wf(term, ob)
    if wf is False:
        return 'not-wf'
    expected = [term.style(texts(l)) for l in ob[CHARS]]
    for (opt, rs, re_), out in zip(FLAGS8, ob[RENDERS]):
        if blank:
            out = blank(out) if False else CSI_RE.sub(lambda m: m.group(0) if m.group(2) == 'm' else 'Z' * len(m.group(0)), out)
            # a lone ESC (not followed by '[') is an ordinary character for the grammar; ESC [ of an SGR sequence stays
            out = re.sub('\x1b(?!\\[)', 'Z', out)
        r = term.run(out)
        if r is None or any(e is None for e in expected):
            continue
        chars, states, fin = r
        tag = 'to_str(optimize=%s, reset_start=%s, reset_end=%s)' % (opt, rs, re_)
        if chars != base:
            fails.append({'oracle': 'C01.text', 'where': where, 'msg': '%s displays %r, base_str is %r' % (tag, chars, base), 'output': out})
            continue
        if not rs:
            for i, (s, e) in enumerate(zip(states, expected)):
                if s != e:
                    fails.append({'oracle': 'C01.style', 'where': where, 'output': out,
                                  'msg': '%s: character %d displayed with %s, reported settings %s give %s' % (tag, i, s, texts(ob[CHARS][i]), e)})
                    break
        else:
            if not RESET_START_RE.match(out):
                fails.append({'oracle': 'C01.reset_start', 'where': where, 'output': out, 'msg': '%s does not begin with a reset' % tag})
            r2 = term.run(PRIOR + out)
            if r2 is not None:
                for i, (s, e) in enumerate(zip(r2[1], expected)):
                    if s != e:
                        fails.append({'oracle': 'C01.reset_start', 'where': where, 'output': out,
                                      'msg': '%s on a terminal with prior state: character %d displayed with %s, expected %s' % (tag, i, s, e)})
                        break
        if re_ and SGR_RE.search(out) and fin != DEFAULT_STATE:
            fails.append({'oracle': 'C01.reset_end', 'where': where, 'output': out, 'msg': '%s leaves the terminal in %s' % (tag, fin)})
    return 'checked'


# ------------------------------------------------------------------ helpers on operations
def py_slice_range(n, a, b):
    return range(n)[slice(a, b)]


def char_settings_equiv(term, src_chars, offs, res_chars, exact=False):
    """res char k has the settings of src char offs[k]"""
    if len(offs) != len(res_chars):
        return 'length %d vs %d' % (len(res_chars), len(offs))
    for k, o in enumerate(offs):
        a, b = texts(src_chars[o]), texts(res_chars[k])
        if not prec_equiv(term, a, b):
            return 'character %d reports %s, source character %d reports %s' % (k, b, o, a)
    return None


def check_slice_like(term, fails, t, src, res, a, b, oracle):
    rng = py_slice_range(len(src[BASE]), a, b)
    offs = list(rng)
    if res[BASE] != src[BASE][slice(a, b)]:
        fails.append({'oracle': oracle + '.text', 'step': t, 'msg': 'text %r, expected %r' % (res[BASE], src[BASE][slice(a, b)])})
        return
    m = char_settings_equiv(term, src[CHARS], offs, res[CHARS])
    if m:
        fails.append({'oracle': oracle + '.settings', 'step': t, 'msg': m})
    if res[PROBE] != []:
        fails.append({'oracle': oracle + '.closed', 'step': t, 'msg': 'text appended to the result is styled %s' % (res[PROBE],)})


# ------------------------------------------------------------------ per-step oracles
FOOTPRINT = {
    'C04': ('slice', 'clip', 'index', 'iter'),
    'C05': ('add', 'iadd', 'join'),
    'C06': ('apply',),
    'C07': ('remove', 'clear'),
    'C11': ('split', 'splitlines', 'partition', 'strip', 'removeprefix', 'removesuffix', 'case', 'assign', 'replace', 'expandtabs'),
    'C12': ('pad',),
    'C16': ('fmatch', 'umatch'),
}


def step_oracles(term, props, ops, recs, fails):
    """evaluate the oracles of the requested properties on one recorded history"""
    for t, (op, rec) in enumerate(zip(ops, recs)):
        post = rec['obs']
        pre = recs[t - 1]['obs'] if t > 0 else []
        res = rec['res']
        name = op[0]
        if post is None:
            # the result of an operation cannot even be queried: that violates the property the operation belongs to
            for pid, names in FOOTPRINT.items():
                if pid in props and name in names and rec['res'][0] == 'ok':
                    fails.append({'oracle': pid + '.observe', 'step': t,
                                  'msg': 'after %s the per-character settings / rendering of a pool object can no longer be read: %s' % (name, rec.get('obs_error'))})
            if 'C09' in props:
                fails.append({'oracle': 'C09.observe', 'step': t, 'msg': 'observing a value raised: %s' % rec.get('obs_error')})
            if 'C08' in props:
                fails.append({'oracle': 'C08.unchanged', 'step': t, 'msg': 'after %s some pool object can no longer be observed: %s' % (name, rec.get('obs_error'))})
            return
        ok = res[0] == 'ok'
        ridx = list(res[1]) if ok else []

        if 'C09' in props:
            o_c09(term, t, op, pre, post, res, fails)
        if 'C08' in props:
            o_c08(term, t, op, pre, post, res, fails)
        if 'C01' in props:
            seen = set()
            for i, ob in enumerate(post):
                key = (ob[BASE], tuple(map(tuple, ob[CHARS])), tuple(ob[RENDERS]))
                if (i < len(pre) and pre[i] == ob) or key in seen:
                    continue
                seen.add(key)
                o_render(term, ob, fails, {'step': t, 'object': i})
            # str() of an AnsiStr is its str payload: it must be the rendering of what the object reports NOW (text and
            # settings), at every point of the history - also after one of its sources was modified in place
            for i, ob in enumerate(post):
                if ob[CLS] == 1 and ob[PAYLOAD] != ob[RENDERS][0]:
                    fails.append({'oracle': 'C01.str', 'step': t,
                                  'msg': 'str() of AnsiStr object %d is %r, but the object reports text %r with settings %s, whose rendering is %r'
                                         % (i, ob[PAYLOAD], ob[BASE], [texts(c) for c in ob[CHARS]], ob[RENDERS][0])})
                    break
        if not ok:
            continue
        if 'C04' in props and name in ('slice', 'clip', 'index', 'iter'):
            src = pre[op[1]]
            if name in ('slice', 'clip'):
                check_slice_like(term, fails, t, src, post[ridx[0]], op[2], op[3], 'C04.' + name)
            elif name == 'index':
                k = op[2]
                kk = k if k >= 0 else len(src[BASE]) + k
                check_slice_like(term, fails, t, src, post[ridx[0]], kk, kk + 1, 'C04.index')
            elif name == 'iter':
                if len(ridx) != len(src[BASE]):
                    fails.append({'oracle': 'C04.iter', 'step': t, 'msg': 'iteration yields %d items for %d characters' % (len(ridx), len(src[BASE]))})
                else:
                    for k, j in enumerate(ridx):
                        check_slice_like(term, fails, t, src, post[j], k, k + 1, 'C04.iter')
        if 'C05' in props and name in ('add', 'iadd', 'join'):
            o_c05(term, t, op, pre, post, ridx, fails)
        if 'C06' in props and name == 'apply':
            o_c06(term, t, op, pre, post, ridx, fails)
        if 'C07' in props and name in ('remove', 'clear'):
            o_c07(term, t, op, pre, post, ridx, fails)
        if 'C11' in props:
            o_c11(term, t, op, pre, post, ridx, fails)
        if 'C12' in props and name == 'pad':
            o_c12_pad(term, t, op, pre, post, ridx, fails)
        if 'C17' in props and name in ('sat', 'find'):
            o_c17(term, t, op, pre, post, res, fails)
        if 'C13' in props:
            # the str payload of an AnsiStr - what str.__str__, '%s', print and file.write see - equals its
            # own rendering, at every point of every history (also after its sources were mutated)
            for i, ob in enumerate(post):
                if ob[CLS] == 1 and ob[PAYLOAD] != ob[RENDERS][0]:
                    fails.append({'oracle': 'C13.payload', 'step': t,
                                  'msg': 'AnsiStr object %d: str payload %r differs from its own rendering %r' % (i, ob[PAYLOAD], ob[RENDERS][0])})
                    break
                if ob[CLS] == 1 and i < len(pre) and pre[i] != ob:
                    fails.append({'oracle': 'C13.immutable', 'step': t,
                                  'msg': 'AnsiStr object %d changed (text/settings/rendering) during %s' % (i, name)})
                    break
        if 'C15' in props:
            for i, ob in enumerate(post):
                if i < len(pre) and pre[i] == ob:
                    continue
                o_c15_render(term, ob, fails, {'step': t, 'object': i})
                # is_formatting_valid / is_formatting_parsable are the conjunction over the settings in use:
                # a True flag with an invalid / unparsable setting on some character is wrong (flags per
                # setting text come from the extracted model's valid / parsable, proved exact in C15.v)
                used = sorted(set(tx for l in ob[CHARS] for (_, tx) in l))
                infos = [(tx, term.info(tx)) for tx in used]
                if all(inf is not None for _, inf in infos):
                    bad_v = [tx for tx, inf in infos if not inf[0]]
                    bad_p = [tx for tx, inf in infos if not inf[1]]
                    if ob[VALID] and bad_v:
                        fails.append({'oracle': 'C15.conj', 'step': t, 'msg': 'is_formatting_valid() is True although the invalid setting(s) %s are in use on object %d' % (bad_v, i)})
                    if ob[PARSABLE] and bad_p and all(tx.isascii() for tx in used):
                        fails.append({'oracle': 'C15.conj', 'step': t, 'msg': 'is_formatting_parsable() is True although the unparsable setting(s) %s are in use on object %d' % (bad_p, i)})


def operand_obs(pre, x):
    """observation of a + / += / join operand as it was before the operation"""
    if x[0] == 'obj':
        return pre[x[1]]
    return None     # plain str: handled by caller


def o_c05(term, t, op, pre, post, ridx, fails):
    name = op[0]
    if name == 'join':
        parts = op[2]
        if not parts:
            return
    else:
        parts = [['obj', op[1]], op[2]]
    res = post[ridx[0]]
    exp_text = ''
    exp_chars = []
    for x in parts:
        if x[0] == 'obj':
            o = pre[x[1]]
            exp_text += o[BASE]
            exp_chars += [texts(l) for l in o[CHARS]]
        else:
            if '\x1b' in x[1]:
                # a str operand with escape sequences is read as formatted text of its own (as the constructor reads it, C02):
                # its characters keep exactly what that reading gives them, whatever stands before or after it
                if not CSI_RE.sub(lambda m: '' if m.group(2) == 'm' else 'X', x[1]).isprintable() or '\x1b' in CSI_RE.sub('', x[1]):
                    return      # pieces of sequences / non-SGR sequences in an operand: outside this oracle (K1)
                from ansi_string import AnsiString as _AS
                alone = _AS(x[1])
                exp_text += alone.base_str
                exp_chars += [[str(z) for z in alone.ansi_settings_at(k)] for k in range(len(alone.base_str))]
                continue
            exp_text += x[1]
            exp_chars += [[] for _ in x[1]]
    if res[BASE] != exp_text:
        fails.append({'oracle': 'C05.text', 'step': t, 'msg': 'text %r, expected %r' % (res[BASE], exp_text)})
        return
    for k, (e, l) in enumerate(zip(exp_chars, res[CHARS])):
        if not prec_equiv(term, e, texts(l)):
            fails.append({'oracle': 'C05.settings', 'step': t, 'msg': 'character %d reports %s, in its own operand it reported %s' % (k, texts(l), e)})
            return


def norm_range(n, st, en):
    def idx(v, d):
        if v is None:
            return d
        if v < 0:
            return max(0, n + v)
        return min(v, n)
    return idx(st, 0), idx(en, n)


def o_c06(term, t, op, pre, post, ridx, fails):
    _, i, f, st, en, top = op
    src, res = pre[i], post[ridx[0]]
    n = len(src[BASE])
    if res[BASE] != src[BASE]:
        fails.append({'oracle': 'C06.text', 'step': t, 'msg': 'text changed to %r' % res[BASE]})
        return
    a, b = norm_range(n, st, en)
    # identities: canonical numbering differs between two observations, so compare texts in order
    # outside the range (exact precedence), and multiset + order of the old ones inside
    added = None
    for k in range(n):
        old, new = texts(src[CHARS][k]), texts(res[CHARS][k])
        if not (a <= k < b):
            if old != new:
                fails.append({'oracle': 'C06.outside', 'step': t, 'msg': 'character %d outside [%d,%d) changed from %s to %s' % (k, a, b, old, new)})
                return
        else:
            # new must be old with some extra settings inserted (old order kept)
            it = iter(new)
            if not all(any(x == y for y in it) for x in old):
                fails.append({'oracle': 'C06.inside', 'step': t, 'msg': 'character %d lost or reordered settings: %s -> %s' % (k, old, new)})
                return
            extra = list(new)
            for x in old:
                extra.remove(x)
            given = given_texts(f, as_list=True)
            if given is not None and sorted(extra) != sorted(given):
                fails.append({'oracle': 'C06.exact', 'step': t,
                              'msg': 'character %d gained %s, but the given settings are %s (before: %s, after: %s)' % (k, extra, given, old, new)})
                return
            if added is None:
                added = extra
            elif sorted(extra) != sorted(added):
                fails.append({'oracle': 'C06.inside', 'step': t, 'msg': 'characters of the range gained different settings: %s vs %s' % (added, extra)})
                return
            if not extra:
                continue
            s_old, s_new, s_add = term.style(old), term.style(new), term.style(extra)
            if s_old is None or s_new is None or s_add is None:
                continue
            infos = [term.info(x) for x in old + extra]
            if any(x is None for x in infos) or not all(x[3] for x in infos):
                continue         # display clauses are about well-formed settings
            if not top:
                # the displayed value of every effect an existing setting sets or clears is unchanged
                touched = set()
                pending = False
                for x in old:
                    a1, a2 = term.style([ALLSET, x]), term.style([x])
                    if a1 is None or a2 is None:
                        pending = True
                        continue
                    touched |= set(e for e in range(14) if a1[e] == a2[e])
                if pending:
                    continue
                for e in touched:
                    if s_old[e] != s_new[e]:
                        fails.append({'oracle': 'C06.nontop', 'step': t, 'msg': 'topmost=False changed the displayed value of an existing effect on character %d: %s -> %s' % (k, old, new)})
                        return
            else:
                # on the first character of the range, and while no other setting begins, the new
                # settings decide their effects
                if k == a or all(len(res[CHARS][j]) == len(res[CHARS][a]) and texts(res[CHARS][j]) == texts(res[CHARS][a]) for j in range(a, k + 1)):
                    for e in range(14):
                        if s_add[e] is not None and s_new[e] != s_add[e]:
                            fails.append({'oracle': 'C06.top', 'step': t, 'msg': 'topmost=True: new settings %s do not decide the display of character %d: %s' % (extra, k, new)})
                            return


_GIVEN = {}


def given_texts(f, as_list=False):
    """the settings a selection names, observed on the implementation itself: what apply_formatting(selection) puts
    on a character of a fresh string (None when the selection is None = everything, or cannot be evaluated)"""
    if f is None or f == ['other', False]:
        return None
    key = repr(f)
    if key not in _GIVEN:
        from .impl import form_py, guarded
        from ansi_string import AnsiString
        try:
            s = AnsiString('x')
            guarded(lambda: s.apply_formatting(form_py(f)))
            _GIVEN[key] = [str(x) for x in s.ansi_settings_at(0)]
        except Exception:  # noqa
            _GIVEN[key] = None
    g = _GIVEN[key]
    return g if (g is None or as_list) else set(g)


def o_c07(term, t, op, pre, post, ridx, fails):
    name = op[0]
    i = op[1]
    src, res = pre[i], post[ridx[0]]
    if name == 'clear':
        if res[BASE] != src[BASE] or any(res[CHARS][k] for k in range(len(res[BASE]))):
            fails.append({'oracle': 'C07.clear', 'step': t, 'msg': 'clear_formatting left %s' % (res[CHARS],)})
        return
    _, i, f, st, en = op
    n = len(src[BASE])
    if res[BASE] != src[BASE]:
        fails.append({'oracle': 'C07.text', 'step': t, 'msg': 'text changed to %r' % res[BASE]})
        return
    a, b = norm_range(n, st, en)
    removed_vals = None
    given = given_texts(f)
    for k in range(n):
        old, new = texts(src[CHARS][k]), texts(res[CHARS][k])
        if (a <= k < b) and given is not None and new != [x for x in old if x not in given]:
            fails.append({'oracle': 'C07.exact', 'step': t,
                          'msg': 'character %d reports %s after remove_formatting; before it had %s and the given settings are %s, so %s was expected'
                                 % (k, new, old, sorted(given), [x for x in old if x not in given])})
            return
        if not (a <= k < b):
            if not prec_equiv(term, old, new):
                fails.append({'oracle': 'C07.outside', 'step': t, 'msg': 'character %d outside [%d,%d) changed from %s to %s' % (k, a, b, old, new)})
                return
        else:
            it = iter(old)
            if not all(any(x == y for y in it) for x in new):
                fails.append({'oracle': 'C07.inside', 'step': t, 'msg': 'character %d: %s is not %s minus some settings (order kept)' % (k, new, old)})
                return
            gone = list(old)
            for x in new:
                gone.remove(x)
            if f is None or f == ['other', False]:
                if new:
                    fails.append({'oracle': 'C07.inside', 'step': t, 'msg': 'settings=None left %s on character %d' % (new, k)})
                    return
            else:
                # every instance of a removed value must be gone: no value both removed and kept
                if set(gone) & set(new):
                    fails.append({'oracle': 'C07.inside', 'step': t, 'msg': 'character %d keeps %s although an equal setting was removed' % (k, sorted(set(gone) & set(new)))})
                    return
                if removed_vals is None:
                    removed_vals = set()
                removed_vals |= set(gone)
    if removed_vals:
        for k in range(a, b):
            if set(texts(res[CHARS][k])) & removed_vals:
                fails.append({'oracle': 'C07.inside', 'step': t, 'msg': 'value %s removed on one character of the range but kept on character %d' % (sorted(set(texts(res[CHARS][k])) & removed_vals), k)})
                return


MUTATORS_INPLACE = {'apply', 'remove', 'clear', 'assign', 'simplify', 'fmatch', 'umatch', 'iadd'}
INPLACE_FLAG_POS = {'clip': 4, 'pad': 5, 'replace': 5, 'expandtabs': 3, 'strip': 5, 'removeprefix': 3, 'removesuffix': 3, 'case': 3}


def target_of(op, cls):
    """index of the object an operation is allowed to modify, or None"""
    name = op[0]
    if cls == 1:
        return None                      # AnsiStr: every method leaves the receiver unchanged
    if name in MUTATORS_INPLACE:
        return op[1]
    if name in INPLACE_FLAG_POS and op[INPLACE_FLAG_POS[name]]:
        return op[2] if name == 'pad' else op[1]
    return None


def obs_equal_value(a, b):
    return a[:TABLE] == b[:TABLE]


def o_c08(term, t, op, pre, post, res, fails):
    name = op[0]
    recv = op[2] if name == 'pad' else (op[1] if name not in ('new', 'join') else None)
    cls = pre[recv][CLS] if isinstance(recv, int) and recv < len(pre) else 0
    tgt = target_of(op, cls) if res[0] == 'ok' else None
    for j in range(len(pre)):
        if j == tgt:
            continue
        if not obs_equal_value(pre[j], post[j]):
            fld = [k for k in range(TABLE) if pre[j][k] != post[j][k]]
            role = 'receiver' if j == recv else 'another object (argument or unrelated)'
            fails.append({'oracle': 'C08.unchanged', 'step': t,
                          'msg': '%s #%d changed (%s) by %s' % (role, j, ', '.join(str(x) for x in fld), name)})
            return
    if res[0] != 'ok':
        return
    ridx = list(res[1])
    if name in INPLACE_FLAG_POS and cls == 0:
        ip = op[INPLACE_FLAG_POS[name]]
        if ip and ridx != [recv]:
            fails.append({'oracle': 'C08.inplace', 'step': t, 'msg': 'in-place %s did not return the receiver' % name})
        if not ip and recv in ridx:
            fails.append({'oracle': 'C08.alias', 'step': t, 'msg': 'non-in-place %s returned the receiver itself' % name})
    if name in ('slice', 'index', 'add', 'from', 'split', 'splitlines', 'partition', 'iter', 'join') and any(j < len(pre) for j in ridx):
        fails.append({'oracle': 'C08.alias', 'step': t, 'msg': '%s returned an existing object' % name})
    if name == 'from' and not op[3]:
        src, r = pre[op[2]], post[ridx[0]]
        if (src[BASE], src[CHARS], src[RENDERS]) != (r[BASE], r[CHARS], r[RENDERS]):
            fails.append({'oracle': 'C08.copy', 'step': t, 'msg': 'copy/conversion differs from its source'})


DOCUMENTED = {1, 2, 3}


def o_c09(term, t, op, pre, post, res, fails):
    name = op[0]
    if res[0] == 'hang':
        fails.append({'oracle': 'C09.terminates', 'step': t, 'msg': '%s did not terminate' % name})
        return
    for j, ob in enumerate(post):
        if not ob[STRICT]:
            fails.append({'oracle': 'C09.selfcheck', 'step': t, 'msg': 'consistency self-check fails on object %d after %s' % (j, name)})
            return
        if ob[PROBE] == -1:
            fails.append({'oracle': 'C09.later_op', 'step': t, 'msg': 'concatenation raises on object %d after %s' % (j, name)})
            return
    if res[0] == 'err':
        if res[1] not in DOCUMENTED:
            fails.append({'oracle': 'C09.error_type', 'step': t, 'msg': '%s raised %s' % (name, res[2:] or res[1])})
            return
        if res[1] == 3 and name != 'index':
            fails.append({'oracle': 'C09.error_type', 'step': t, 'msg': '%s raised IndexError' % name})
            return
        if res[1] == 3 and name == 'index' and isinstance(op[2], int) and -len(pre[op[1]][BASE]) <= op[2] < len(pre[op[1]][BASE]):
            # "IndexError for an OUT-OF-RANGE integer index; the error str itself raises for the same call"
            fails.append({'oracle': 'C09.error_type', 'step': t,
                          'msg': 'index %d raised IndexError on a text of length %d (str accepts it)' % (op[2], len(pre[op[1]][BASE]))})
            return
        for j in range(len(pre)):
            if not obs_equal_value(pre[j], post[j]):
                fld = [k for k in range(TABLE) if pre[j][k] != post[j][k]]
                fails.append({'oracle': 'C09.clean_failure', 'step': t,
                              'msg': 'object %d changed (%s) although %s raised' % (j, fld, name)})
                return


def o_c11(term, t, op, pre, post, ridx, fails):
    name = op[0]
    if name not in ('split', 'splitlines', 'partition', 'strip', 'removeprefix', 'removesuffix', 'case', 'assign',
                    'replace', 'expandtabs'):
        return
    i = op[1]
    src = pre[i]
    base = src[BASE]
    def piece(res, off, n, what):
        exp = base[off:off + n]
        if res[BASE] != exp:
            fails.append({'oracle': 'C11.text', 'step': t, 'msg': '%s piece text %r, expected %r' % (what, res[BASE], exp)})
            return
        m = char_settings_equiv(term, src[CHARS], list(range(off, off + n)), res[CHARS])
        if m:
            fails.append({'oracle': 'C11.' + name, 'step': t, 'msg': '%s piece at true offset %d: %s' % (what, off, m)})
    if name == 'split':
        _, _, sep, m, right = op
        if sep == '':
            return
        ps = base.rsplit(sep, m) if right else base.split(sep, m)
        if sep is None and any(not p for p in ps):
            return
        if len(ps) != len(ridx):
            fails.append({'oracle': 'C11.split', 'step': t, 'msg': '%d pieces, str gives %d' % (len(ridx), len(ps))})
            return
        offs = true_offsets(base, ps, sep, m, right)
        for p, off, j in zip(ps, offs, ridx):
            piece(post[j], off, len(p), 'split')
    elif name == 'splitlines':
        ps = base.splitlines(op[2])
        if len(ps) != len(ridx):
            fails.append({'oracle': 'C11.splitlines', 'step': t, 'msg': '%d pieces, str gives %d' % (len(ridx), len(ps))})
            return
        pos = 0
        for p, full, j in zip(ps, base.splitlines(True), ridx):
            piece(post[j], pos, len(p), 'splitlines')
            pos += len(full)
    elif name == 'partition':
        sep, right = op[2], op[3]
        if sep == '':
            return
        k = base.rfind(sep) if right else base.find(sep)
        if k < 0:
            offs = [(0, len(base)), (0, 0), (0, 0)]
        else:
            offs = [(0, k), (k, len(sep)), (k + len(sep), len(base) - k - len(sep))]
        for (off, n), j in zip(offs, ridx):
            piece(post[j], off, n, 'partition')
    elif name == 'strip':
        _, _, chars, dl, dr, ip = op
        s2 = base
        cs = ' \t\n\r\v\f' if chars is None else chars
        l = 0
        if dl:
            while l < len(base) and base[l] in cs:
                l += 1
        r = len(base)
        if dr:
            while r > l and base[r - 1] in cs:
                r -= 1
        piece(post[ridx[0]], l, r - l, 'strip')
    elif name == 'removeprefix':
        p = op[2]
        off = len(p) if base.startswith(p) else 0
        piece(post[ridx[0]], off, len(base) - off, 'removeprefix')
    elif name == 'removesuffix':
        p = op[2]
        n = len(base) - len(p) if (p and base.endswith(p)) else len(base)
        piece(post[ridx[0]], 0, n, 'removesuffix')
    elif name == 'case':
        res = post[ridx[0]]
        if len(res[BASE]) == len(base):
            m = char_settings_equiv(term, src[CHARS], list(range(len(base))), res[CHARS])
            if m:
                fails.append({'oracle': 'C11.case', 'step': t, 'msg': m})
    elif name == 'assign':
        res = post[ridx[0]]
        newt = op[2]
        if res[BASE] != newt:
            fails.append({'oracle': 'C11.assign', 'step': t, 'msg': 'text %r after assign_str(%r)' % (res[BASE], newt)})
            return
        for k in range(len(newt)):
            exp = texts(src[CHARS][k]) if k < len(base) else (texts(src[CHARS][-1]) if base else [])
            if not prec_equiv(term, exp, texts(res[CHARS][k])):
                fails.append({'oracle': 'C11.assign', 'step': t, 'msg': 'character %d reports %s, expected %s' % (k, texts(res[CHARS][k]), exp)})
                return
    elif name in ('replace', 'expandtabs'):
        if name == 'expandtabs':
            old, new, cnt = '\t', ['str', ' ' * op[2]], -1
        else:
            old, new, cnt = op[2], op[3], op[4]
        if old == '':
            return
        if new[0] == 'obj':
            nb, nchars = pre[new[1]][BASE], [texts(l) for l in pre[new[1]][CHARS]]
        else:
            if '\x1b' in new[1]:
                # an ANSI-coded str replacement: its text is the raw string minus its SGR sequences (read left
                # to right); its own settings combine with those of the match, so only the text and the
                # characters outside the matches are checked
                from .direct2 import strip_sgr
                nb = strip_sgr(new[1])
                if '\x1b' in nb:
                    return
                nchars = [None] * len(nb)
            else:
                nb, nchars = new[1], None
        exp_text, exp_chars = [], []
        pos = 0
        while True:
            k = base.find(old, pos) if cnt != 0 else -1
            if k < 0:
                exp_text.append(base[pos:])
                exp_chars += [texts(l) for l in src[CHARS][pos:]]
                break
            exp_text.append(base[pos:k])
            exp_chars += [texts(l) for l in src[CHARS][pos:k]]
            exp_text.append(nb)
            exp_chars += (nchars if nchars is not None else [texts(src[CHARS][k])] * len(nb))
            pos = k + len(old)
            if cnt > 0:
                cnt -= 1
        res = post[ridx[0]]
        if res[BASE] != ''.join(exp_text):
            fails.append({'oracle': 'C11.replace.text', 'step': t, 'msg': 'text %r, expected %r' % (res[BASE], ''.join(exp_text))})
            return
        for k, (e, l) in enumerate(zip(exp_chars, res[CHARS])):
            if e is not None and not prec_equiv(term, e, texts(l)):
                fails.append({'oracle': 'C11.replace', 'step': t, 'msg': 'character %d reports %s, expected %s' % (k, texts(l), e)})
                return


def true_offsets(base, pieces, sep, maxsplit, right):
    """offsets of str.split / rsplit pieces in base, computed from the str result alone"""
    offs, pos = [], 0
    if sep is None and right:
        # rsplit: every piece ends at the last non-whitespace character before the start of the next piece
        pos = len(base)
        for p in reversed(pieces):
            while pos > 0 and base[pos - 1].isspace():
                pos -= 1
            pos -= len(p)
            offs.append(pos)
        return list(reversed(offs))
    if sep is None:
        # every piece starts at the first non-whitespace character after the end of the previous piece
        for p in pieces:
            while pos < len(base) and base[pos].isspace():
                pos += 1
            offs.append(pos)
            pos += len(p)
        return offs
    for p in pieces:
        offs.append(pos)
        pos += len(p) + len(sep)
    return offs


def o_c12_pad(term, t, op, pre, post, ridx, fails):
    _, which, i, w, fill, ip, ext = op
    src, res = pre[i], post[ridx[0]]
    if src[CLS] == 1:
        ext = True
    if which == 3:
        fill, ext = '0', True
    base = src[BASE]
    align = {0: '<', 1: '>', 2: '^', 3: '>'}[which]
    n = len(base)
    num = max(0, w - n)
    left = {0: 0, 1: num, 2: num // 2, 3: num}[which]
    exp = fill * left + base + fill * (num - left)
    if res[BASE] != exp:
        fails.append({'oracle': 'C12.text', 'step': t, 'msg': 'text %r, expected %r' % (res[BASE], exp)})
        return
    first = texts(src[CHARS][0]) if n else []
    last = texts(src[CHARS][-1]) if n else []
    for k in range(len(exp)):
        if k < left:
            e = first if ext else []
        elif k < left + n:
            e = texts(src[CHARS][k - left])
        else:
            e = last if ext else []
        if not prec_equiv(term, e, texts(res[CHARS][k])):
            fails.append({'oracle': 'C12.settings', 'step': t, 'msg': 'character %d of the padded result reports %s, expected %s' % (k, texts(res[CHARS][k]), e)})
            return
    if res[PROBE] != []:
        fails.append({'oracle': 'C12.closed', 'step': t, 'msg': 'text appended to the padded result is styled %s' % (res[PROBE],)})


def o_c17(term, t, op, pre, post, res, fails):
    if res[0] != 'ok':
        return
    name = op[0]
    src = pre[op[1]]
    n = len(src[BASE])
    if name == 'sat':
        k = op[2]
        got = res[2][1]
        exp = src[CHARS][k] if 0 <= k < n else []
        if texts(got) != texts(exp):
            fails.append({'oracle': 'C17.settings_at', 'step': t, 'msg': 'ansi_settings_at(%d) = %s, per-character table says %s' % (k, texts(got), texts(exp))})
        if len(res[2]) > 2 and res[2][2] != ';'.join(texts(got)):
            fails.append({'oracle': 'C17.settings_at_str', 'step': t, 'msg': "settings_at(%d) = %r is not the ';'-join of ansi_settings_at(%d) = %s" % (k, res[2][2], k, texts(got))})
    # find_settings is checked in checks/c17 where the scrubbed settings are known


def closed_text(x):
    """Python port of RoundTripEsc.closed_text: every ESC [ in x starts a COMPLETE control sequence whose final byte is not 'm',
    and x does not end in ESC or inside a sequence (x tokenises to its own characters in every context)"""
    st = 0
    for c in x:
        if st == 0:
            st = 1 if c == '\x1b' else 0
        elif st == 1:
            st = 2 if c == '[' else (1 if c == '\x1b' else 0)
        elif 0x40 <= ord(c) <= 0x7e:
            if c == 'm':
                return False
            st = 0
    return st == 0


def cuts_closed(ob):
    """hypothesis of C15_render_strip_esc / C03_roundtrip_esc on an observed value: the text and its prefix up to every change
    point are closed (no change point strictly inside an embedded control sequence); outside it: known finding K1"""
    base = ob[BASE]
    return closed_text(base) and all(closed_text(base[:row[0]]) for row in ob[TABLE])


def o_c15_render(term, ob, fails, where):
    base = ob[BASE]
    if not ob[VALID] or ('\x1b' in base and not cuts_closed(ob)):
        return
    for (opt, rs, re_), out in zip(FLAGS8, ob[RENDERS]):
        # control sequences are read left to right with the documented grammar (ESC [, bytes outside 0x40-0x7E, one final byte);
        # those that end in 'm' are the SGR sequences (a search for the substring ESC[...m would also hit an ESC that is a
        # parameter byte of an embedded sequence - K5)
        stripped = CSI_RE.sub(lambda m: '' if m.group(2) == 'm' else m.group(0), out)
        if stripped != base:
            fails.append({'oracle': 'C15.strip', 'where': where, 'output': out,
                          'msg': 'is_formatting_valid() but removing ESC[...m from the rendering gives %r, base_str is %r' % (stripped, base)})
            return
        if not opt:
            seqs = [m.group(0) for m in CSI_RE.finditer(out) if m.group(2) == 'm']
            bodies = [';' + s[2:-1] + ';' for s in seqs]
            for l in ob[CHARS]:
                for (_, tx) in l:
                    if not any((';' + tx + ';') in b for b in bodies):
                        fails.append({'oracle': 'C15.intact', 'where': where, 'output': out,
                                      'msg': 'setting %r in use does not appear intact in any emitted sequence' % tx})
                        return
