"""Per-property configuration: Coq files, exploration, replay."""
from . import direct, runner

TRUSTED_BASE = [
    'Coq 8.16.1 kernel as run by coqc (full .vo build); vm_compute for finite table obligations and witnesses; no native_compute',
    'axioms: none - Print Assumptions under every property theorem must answer "Closed under the global context" (parsed on every run)',
    'tools/translate_rt.py regenerating the tables of coq/Gen/*.v on every run from the IMPORTED package (CPython evaluating the module-level definitions of ansi_param.py / ansi_format.py), cross-checked by the independent Python-ast reading tools/translate.py wherever that recognises the source text (harness/tablecheck.py)',
    'tools/translate_fns.py (Python-ast) regenerating coq/Gen/Fns.v: six small functions / guards translated where their source shape is known (obligations Proofs/GenFns*.v, GenGuards.v), reference form otherwise - then tied by the enumerated function-level correspondence harness/fncorr.py, named in the evidence',
    'extraction: Require Extraction + ExtrOcamlBasic only (bool, option, unit, list, prod, sumbool->bool, sumor->option, andb/orb inlined); nat/positive/N/Z stay inductive; ocamlfind ocamlopt 4.13.1; hand-written ocaml/driver.ml (S-expression I/O only)',
    'correspondence check = differential testing of the extracted model against /repo on generated inputs and histories (sampled, not proved)',
    'specification choices: coq/Spec/Terminal.v (spec_class, parameter-group consumption, values > 255 ignored, empty parameter = 0, primary font 10 = default font)',
    'CPython 3.12 (dict order, sorted, slicing, is), Python re and the delegated str methods are used as oracles, not modelled',
]
COMMON_ASSUMPTIONS = [
    'the algorithms of ansi_string.py / ansi_parsing.py / ansi_format.py are hand-modelled in coq/Model; the tables, _slice_val_to_idx, AnsiSetting.valid, seq_starts_with_fn, the rgb component arithmetic, three range guards and the fill division of center are regenerated from the code',
    'known findings (known_findings.json, status known): K1 ESC in base text (C01, C03), K2 optimiser drops unneeded parsable verbatim settings (C15), K3 topmost=True vs a restart point (C06), K4 every ESC[...m taken for SGR (C02), K5 ESC read as a parameter byte (C02) - the oracles of those properties do not evaluate the value classes named in the scope of each',
]


def _replay_history(props, extra=None):
    def f(v, term):
        fails, div = runner.replay_history(props, v['history'], term, extra)
        want = v.get('oracle')
        hit = [x for x in fails if want is None or x['oracle'] == want]
        return hit[0]['msg'] if hit else None
    return f


PROPS = {}

# ---------------------------------------------------------------- C19
def _c19_run(rep, rng, tier, term):
    return direct.c19_run(rep, rng, tier)

PROPS['C19'] = dict(
    coq=['Properties/C19.v'],
    run=_c19_run,
    replay=lambda v, term: (direct.c19_replay(v['case']) or None),
    rule='all strings of length <= 5 (quick) / 6 (thorough) over {ESC,[,1,;,m,J,a} plus random longer strings, x 4 constructor flag sets; every helper on a range of integers; non-trivial = contains ESC[',
)

# ---------------------------------------------------------------- C18
def _c18_run(rep, rng, tier, term):
    return direct.c18_run(rep, rng, tier, term)

PROPS['C18'] = dict(
    coq=['Properties/C18.v'],
    run=_c18_run,
    replay=lambda v, term: direct.c18_replay(v, term),
    rule='all code lists of length <= 3 (quick) / 4 (thorough) over a 12-token alphabet, colour groups at every position, random lists over 21 tokens, irregular strings; as list and as str, both add_erroneous flags; pairs (prior state, new codes); non-trivial = more than one token',
)


# ---------------------------------------------------------------- history-based properties
def hist_prop(pid, oracle_props, weights, n_quick, n_thorough, steps_q=10, steps_t=16, hg=None, extra=None,
              extra_oracle=None, rule=''):
    hg = dict(hg or {})
    def run(rep, rng, tier, term):
        n = n_quick if tier == 'quick' else max(n_quick, n_thorough // 3)
        steps = steps_q if tier == 'quick' else steps_t
        kw = dict(hg)
        kw['weights'] = weights
        ov, dv = runner.explore(rep, oracle_props, n, steps, rng.randrange(1 << 30), kw, term=term, extra_oracle=extra_oracle)
        # exhaustive small scope: all two-operation histories over a small operation alphabet (thorough),
        # a seed-dependent eighth of them (quick)
        from . import smallscope
        hs = list(smallscope.histories(2))
        if tier == 'quick':
            k = rng.randrange(8)
            hs = hs[k::8]
        ov3, dv3 = runner.explore_list(rep, oracle_props, hs, term=term, extra_oracle=extra_oracle)
        rep.notes.append('small scope: %d of %d two-operation histories run through implementation, model and oracles' % (len(hs), 10201))
        ov, dv = ov + ov3, dv + dv3
        # fixed histories kept under histories/<id>/: shapes that a seeded change needed and that random generation reaches
        # only for some seeds (they are inputs, not findings: run like every other history, through implementation, model and oracles)
        import glob, json as _json, os as _os
        fixed = [_json.load(open(f))['history'] for f in sorted(glob.glob(_os.path.join(_os.path.dirname(_os.path.dirname(_os.path.abspath(__file__))), 'histories', pid, '*.json')))]
        if fixed:
            ov4, dv4 = runner.explore_list(rep, oracle_props, fixed, term=term, extra_oracle=extra_oracle, tag='fixed_histories')
            ov, dv = ov + ov4, dv + dv4
        if extra:
            ov2, dv2 = extra(rep, rng, tier, term)
            ov, dv = ov + ov2, dv + dv2
        return ov, dv
    return dict(run=run, replay=_replay_history(oracle_props, extra_oracle),
                rule=rule or ('random operation histories over a pool of <= 7 AnsiString/AnsiStr objects, ranges chosen on/next to/between change points, '
                              'settings from a palette built to conflict (two values + clear code per effect group, colour groups, verbatim, equal-valued duplicates); '
                              'after every step every pool object is observed (text, per-character settings with identities, 8 renderings, flags, self-check, append probe) on implementation and model; '
                              'non-trivial = some object with >= 2 change points or an error path; distinct = hash of the history'))


BUILD_W = {'new': 3, 'from': 1, 'apply': 8, 'remove': 3, 'iadd': 2, 'add': 1.5, 'slice': 1.5, 'pad': 0.7, 'assign': 0.5, 'replace': 0.7, 'simplify': 0.3}

def W(**kw):
    w = dict(BUILD_W)
    w.update(kw)
    return w

PROPS['C04'] = dict(coq=['Properties/C04.v'], **hist_prop(
    'C04', {'C04'}, W(slice=10, index=3, clip=4, iter=1.5, assign=1.5, case=1, clear=0.6), 1500, 40000, hg={'odd': 'mix', 'esc': 0.2}))
def _c05_seams(rep, rng, tier, term):
    from . import smallscope
    hs = list(smallscope.seam_histories(full=(tier != 'quick')))
    ov, dv = runner.explore_list(rep, {'C05'}, hs, term=term, tag='seam_configurations')
    rep.notes.append('seam configurations: %d histories (three settings stopping together at the seam in every order, '
                     'right operand starting with every ordered selection of their values)' % len(hs))
    return ov, dv

PROPS['C05'] = dict(coq=['Properties/C05.v'], **hist_prop(
    'C05', {'C05'}, W(add=8, iadd=8, join=3, slice=4), 1500, 40000, hg={'odd': 'mix', 'sgr_operands': 0.25}, extra=_c05_seams))
PROPS['C06'] = dict(coq=['Properties/C06.v'], **hist_prop(
    'C06', {'C06'}, W(apply=14, slice=2), 1500, 40000, hg={'odd': 'mix'}))
PROPS['C07'] = dict(coq=['Properties/C07.v'], **hist_prop(
    'C07', {'C07'}, W(remove=12, clear=0.5, umatch=1), 1500, 40000, hg={'odd': 'mix'}))
PROPS['C08'] = dict(coq=['Properties/C08.v'], **hist_prop(
    'C08', {'C08'}, None, 1200, 30000, steps_q=12, steps_t=40, hg={'odd': 'mix'}))
def _c09_esc(rep, rng, tier, term):
    """histories whose TEXTS carry pieces of control sequences (U+001B in the base text: complete non-SGR sequences, text that
    spells an SGR sequence, unterminated introducers; through the constructor, assign_str, concatenation, case conversion):
    every operation must treat such a text as the characters it consists of - implementation against model after every step,
    and the C09 clauses (termination, documented errors, self-check, later operations).  The display oracles of the other
    properties are not applied to these values (K1)."""
    n = 500 if tier == 'quick' else 15000
    ov, dv = runner.explore(rep, {'C09'}, n, 12, rng.randrange(1 << 30), {'weights': None, 'esc': 0.5, 'odd': 'mix', 'bad': 'mix'}, term=term)
    rep.bump('histories over texts with U+001B', n)
    return ov, dv


PROPS['C09'] = dict(coq=['Properties/C09.v'], **hist_prop(
    'C09', {'C09'}, None, 1200, 30000, steps_q=12, steps_t=40, hg={'odd': 'mix', 'bad': 'mix'}, extra=_c09_esc))
PROPS['C11'] = dict(coq=['Properties/C11.v'], **hist_prop(
    'C11', {'C11'}, W(split=5, splitlines=2, partition=3, strip=3, removeprefix=1.5, removesuffix=1.5, case=2, assign=3,
                      replace=6, expandtabs=1), 1500, 40000, hg={'odd': 'mix'}))
PROPS['C12'] = dict(coq=['Properties/C12.v'], **hist_prop(
    'C12', {'C12'}, W(pad=12, tostr=6), 1500, 40000, hg={'odd': 'mix'}))
PROPS['C17'] = dict(coq=['Properties/C17.v'], **hist_prop(
    'C17', {'C17'}, W(sat=6, find=12), 1500, 40000, hg={'odd': 'mix'}))
PROPS['C01'] = dict(coq=['Properties/C01.v'], **hist_prop(
    'C01', {'C01'}, W(tostr=2), 1200, 30000, hg={'odd': False, 'esc': 0.15}))
PROPS['C15'] = dict(coq=['Properties/C15.v'], **hist_prop(
    'C15', {'C15'}, W(tostr=1), 1000, 30000, hg={'odd': True, 'esc': 0.2}))


# ---------------------------------------------------------------- direct explorations (harness/direct2.py)
from . import direct2


def direct_prop(runfn, replayfn=None, rule=''):
    return dict(run=runfn, replay=replayfn or direct2.generic_case_replay(runfn), rule=rule)


def _with_extra(histcfg, extra_run, extra_replay=None):
    """a history property that also runs a direct exploration"""
    base_run, base_replay = histcfg['run'], histcfg['replay']
    def run(rep, rng, tier, term):
        ov, dv = base_run(rep, rng, tier, term)
        ov2, dv2 = extra_run(rep, rng, tier, term)
        return ov + ov2, dv + dv2
    def replay(v, term):
        if 'history' in v and 'case' not in v:
            return base_replay(v, term)
        return (extra_replay or direct2.generic_case_replay(extra_run))(v, term)
    out = dict(histcfg)
    out['run'], out['replay'] = run, replay
    return out


PROPS['C02'] = dict(coq=['Properties/C02.v'], **direct_prop(
    direct2.c02_run, direct2.c02_replay,
    rule='generated strings interleaving text with SGR sequences (codes from a palette of set/clear/colour-group/incomplete/unknown/empty-parameter codes at every position), non-SGR and unterminated sequences; AnsiString(w) compared with the extracted terminal run on w and with the model; non-trivial = at least one SGR sequence before a character'))
PROPS['C03'] = dict(coq=['Properties/C03.v'], **direct_prop(
    direct2.c03_run, direct2.c03_replay,
    rule='values built by random histories (and parsed inputs): re-parse of every rendering, simplify(), simplify twice, rendering as a fixed point; non-trivial = table with >= 2 change points'))
PROPS['C10'] = dict(coq=['Properties/C10.v'], **direct_prop(
    direct2.c10_run, direct2.c10_replay,
    rule='every str-like method x generated arguments (empty, overlapping, multi-character patterns, counts, negative/None bounds, non-ASCII) on AnsiString and AnsiStr against str on the base text, result and exception type; non-trivial = non-empty text'))
PROPS['C13'] = dict(coq=['Properties/C13.v'], **_with_extra(hist_prop(
    'C13', {'C13'}, W(**{'from': 7, 'new': 4, 'apply': 8, 'remove': 3, 'iadd': 3, 'assign': 1.5, 'clear': 0.5, 'simplify': 0.5, 'case': 1, 'strip': 1,
                         'slice': 2, 'add': 2, 'pad': 1, 'replace': 1}), 700, 20000, hg={'odd': 'mix'},
    rule='histories over both classes with conversions AnsiStr(x)/AnsiString(x) weighted up, sources mutated in place afterwards: after every step the str payload of every AnsiStr object must equal its own rendering and no AnsiStr object may change; plus twin runs: every shared public method (list computed from the classes at run time) and the shared operators on an AnsiString and an AnsiStr built from the same history, same arguments, results compared by text, per-character settings, 8 renderings, str payload'),
    direct2.c13_run))
PROPS['C14'] = dict(coq=['Properties/C14.v'], **direct_prop(
    direct2.c14_run, direct2.c14_replay,
    rule='all AnsiFormat names x 6 spellings, all codes 0..255 as int/str/list/verbatim, colour groups flat/nested/joined, rgb/color256 helpers and their string forms with boundary values, random mixtures; model scrubber compared on the same forms'))
PROPS['C16'] = dict(coq=['Properties/C16.v'], **direct_prop(
    direct2.c16_run,
    rule='format_matching / unformat_matching on history-built values against an explicit loop of apply_formatting / remove_formatting over re.finditer matches (escaped or regex, case flag, counts -1..3, empty and adjacent matches)'))
PROPS['C12'] = _with_extra(PROPS['C12'], direct2.c12fmt_run)
PROPS['C15'] = _with_extra(PROPS['C15'], direct2.c15_run, direct2.c15_replay)
PROPS['C17'] = dict(coq=['Properties/C17.v'], **hist_prop(
    'C17', {'C17'}, W(sat=6, find=12), 1500, 40000, hg={'odd': 'mix'}, extra_oracle=direct2.c17_find_oracle))


# ---------------------------------------------------------------- known finding K1 (base text containing U+001B)
def _k1_confirm(prop):
    def confirm(entry, term):
        """re-run K1's witness for this property on the implementation; True = it still fails"""
        if entry.get('id') != 'K1':
            return None
        from ansi_string import AnsiString
        if prop == 'C03':
            s = AnsiString('\x1b[') + '1mfoo'
            return AnsiString(str(s)).base_str != s.base_str
        t = AnsiString('a\x1b[2Jb')
        t.apply_formatting('red', 3, 5)
        r = term.run(str(t))
        return r is None or r[0] != t.base_str
    return confirm


PROPS['C01']['confirm_known'] = _k1_confirm('C01')
PROPS['C03']['confirm_known'] = _k1_confirm('C03')


# ---------------------------------------------------------------- known findings K2 (C15), K3 (C06), K4 (C02)
def _known_confirm(prop, prev=None):
    def confirm(entry, term):
        """re-run the witness of a `known` finding of this property on the implementation; True = it still fails"""
        from ansi_string import AnsiString, AnsiStr
        i = entry.get('id')
        if i == 'K2' and prop == 'C15':
            a = AnsiStr('a', '[31', '[34')
            return a.is_formatting_valid() and [str(x) for x in a.ansi_settings_at(0)] == ['31', '34'] and '31' not in str(a)
        if i == 'K3' and prop == 'C06':
            s = AnsiString('abcd', 'red')
            s.apply_formatting('bg_white', 1, 3, topmost=False)
            s.remove_formatting('bg_white')
            before = [[str(c) for c in s.ansi_settings_at(k)] for k in range(4)]
            s.apply_formatting('blue', 0, 2)
            r = term.run(str(s))
            shown = None if r is None else r[1][1]
            want = term.style(['34'])
            # every character reported only red before; blue applied on top of [0,2) must show on 'b'
            return before == [['31']] * 4 and (shown is None or want is None or shown != want)
        if i == 'K5' and prop == 'C02':
            a = AnsiString('\x1b[1\x1b[2mX')
            return a.base_str == '\x1b[1\x1b[2mX' and not any(a.ansi_settings_at(k) for k in range(len(a.base_str)))
        if i == 'K4' and prop == 'C02':
            a = AnsiString('\x1b[>4;2mX')
            return a.base_str == 'X' and [str(x) for x in a.ansi_settings_at(0)] == ['2']
        if i == 'K6':
            import sys
            from ansi_string import AnsiSetting
            from ansi_string.ansi_parsing import parse_graphic_sequence, settings_to_dict
            n = sys.get_int_max_str_digits()
            if not n:
                return False
            z = '0' * n + '1'
            if prop == 'C15':
                return AnsiSetting(z).parsable is False and AnsiSetting(z[1:]).parsable is True
            if prop == 'C18':
                return settings_to_dict(parse_graphic_sequence(z)) == {} and len(settings_to_dict(parse_graphic_sequence(z[1:]))) == 1
            if prop == 'C02':
                return AnsiString('\x1b[' + z + 'mX').ansi_settings_at(0) == [] and [str(x) for x in AnsiString('\x1b[' + z[1:] + 'mX').ansi_settings_at(0)] == ['1']
            if prop == 'C03':
                s_ = AnsiString('X', AnsiSetting(z))
                return [str(x) for x in s_.ansi_settings_at(0)] == [z] and AnsiString(str(s_)).ansi_settings_at(0) == []
            if prop == 'C19':
                import ansi_string.ansi_string as _m
                try:
                    _m.cursor_up_str(10 ** n)
                    return False
                except ValueError:
                    return len(_m.cursor_up_str(10 ** (n - 1))) == n + 3
        if i == 'K7':
            from ansi_string.ansi_parsing import parse_graphic_sequence, settings_to_dict
            if prop == 'C18':
                return {k.name: str(v) for k, v in settings_to_dict(parse_graphic_sequence('20;23')).items()} == {'FONT_TYPE': '20'}
            if prop == 'C02':
                return [str(x) for x in AnsiString('\x1b[20mA\x1b[23mB\x1b[m').ansi_settings_at(1)] == ['20']
            if prop == 'C01':
                x = AnsiString('ab', 'gothic_font')
                x.apply_formatting('italic', 0, 1)
                return str(x) == '\x1b[20;3ma\x1b[23mb\x1b[m' and [str(c) for c in x.ansi_settings_at(1)] == ['20']
        return prev(entry, term) if prev else None
    return confirm


PROPS['C15']['confirm_known'] = _known_confirm('C15')
PROPS['C06']['confirm_known'] = _known_confirm('C06')
PROPS['C02']['confirm_known'] = _known_confirm('C02')
PROPS['C18']['confirm_known'] = _known_confirm('C18')
PROPS['C19']['confirm_known'] = _known_confirm('C19')
PROPS['C01']['confirm_known'] = _known_confirm('C01', PROPS['C01']['confirm_known'])
PROPS['C03']['confirm_known'] = _known_confirm('C03', PROPS['C03']['confirm_known'])


PROPS['C11'] = _with_extra(PROPS['C11'], direct2.c11_assign_ansistr_run)
PROPS['C07'] = _with_extra(PROPS['C07'], direct2.c07_esc_run)
PROPS['C04'] = _with_extra(PROPS['C04'], direct2.c04_esc_run)
PROPS['C08'] = _with_extra(PROPS['C08'], direct2.c08_copy_run)
