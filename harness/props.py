"""Per-property configuration: Coq files, exploration, replay."""
from . import direct, runner

TRUSTED_BASE = [
    'Coq 8.16.1 kernel as run by coqc (full .vo build); vm_compute for finite table obligations and witnesses; no native_compute',
    'axioms: none - Print Assumptions under every property theorem must answer "Closed under the global context" (parsed on every run)',
    'tools/translate.py (Python-ast, fail-closed) regenerating coq/Gen/*.v from /repo/src/ansi_string on every run',
    'extraction: Require Extraction + ExtrOcamlBasic only (bool, option, unit, list, prod, sumbool->bool, sumor->option, andb/orb inlined); nat/positive/N/Z stay inductive; ocamlfind ocamlopt 4.13.1; hand-written ocaml/driver.ml (S-expression I/O only)',
    'correspondence check = differential testing of the extracted model against /repo on generated inputs and histories (sampled, not proved)',
    'specification choices: coq/Spec/Terminal.v (spec_class, parameter-group consumption, values > 255 ignored, empty parameter = 0, primary font 10 = default font)',
    'CPython 3.12 (dict order, sorted, slicing, is), Python re and the delegated str methods are used as oracles, not modelled',
]
COMMON_ASSUMPTIONS = [
    'the algorithms of ansi_string.py / ansi_parsing.py / ansi_format.py are hand-modelled in coq/Model; only the tables are regenerated from source',
]


def _replay_history(props, extra=None):
    def f(v, term):
        fails, div = runner.replay_history(props, v['history'], term, extra)
        want = v.get('oracle')
        hit = [x for x in fails if want is None or x['oracle'] == want]
        return hit[0]['msg'] if hit else None
    return f


PROPS = {}

# ---------------------------------------------------------------- C19
def _c19_run(rep, rng, tier, term):
    return direct.c19_run(rep, rng, tier)

PROPS['C19'] = dict(
    coq=['Properties/C19.v'],
    run=_c19_run,
    replay=lambda v, term: (direct.c19_replay(v['case']) or None),
    rule='all strings of length <= 5 (quick) / 6 (thorough) over {ESC,[,1,;,m,J,a} plus random longer strings, x 4 constructor flag sets; every helper on a range of integers; non-trivial = contains ESC[',
)

# ---------------------------------------------------------------- C18
def _c18_run(rep, rng, tier, term):
    return direct.c18_run(rep, rng, tier, term)

PROPS['C18'] = dict(
    coq=['Properties/C18.v'],
    run=_c18_run,
    replay=lambda v, term: direct.c18_replay(v, term),
    rule='all code lists of length <= 3 (quick) / 4 (thorough) over a 12-token alphabet, colour groups at every position, random lists over 21 tokens, irregular strings; as list and as str, both add_erroneous flags; pairs (prior state, new codes); non-trivial = more than one token',
)
