"""History exploration shared by the table properties: generate, run on implementation and
model, apply the statement-level oracles, shrink what fails."""
import json, random
from . import impl, corr, oracles
from .hist import HistGen
from .term import Term


def oracle_fails(term, props, ops, recs):
    fails = []
    def go():
        del fails[:]
        oracles.step_oracles(term, props, ops, recs, fails)
        return list(fails)
    return term.two_phase(go)


def shrink(ops, still_fails, max_rounds=200):
    """delta debugging on the operation list"""
    cur = list(ops)
    rounds = 0
    changed = True
    while changed and rounds < max_rounds:
        changed = False
        for i in range(len(cur) - 1, -1, -1):
            rounds += 1
            cand = cur[:i] + cur[i + 1:]
            if not cand:
                continue
            # removing an op that created an object shifts later indices: renumber is not attempted,
            # the candidate is simply replayed and kept if the same failure shows
            try:
                if still_fails(cand):
                    cur = cand
                    changed = True
            except Exception:
                pass
    return cur


def pretty(ops):
    return [json.loads(json.dumps(o)) for o in ops]


def explore(rep, props, n_hist, steps, seed, hg_kwargs=None, batch=250, term=None, nontrivial=None, fields=None,
            extra_oracle=None):
    """-> (oracle violations, divergences) ; both lists of dicts with minimal cases"""
    hg_kwargs = hg_kwargs or {}
    term = term or Term()
    rng = random.Random(seed)
    found_oracle, found_div = [], []
    seen_oracles = set()
    done = 0
    while done < n_hist:
        cases = []
        for k in range(min(batch, n_hist - done)):
            kw = dict(hg_kwargs)
            if 'odd' in kw and kw['odd'] == 'mix':
                kw['odd'] = (k % 4 == 0)
            if 'bad' in kw and kw['bad'] == 'mix':
                kw['bad'] = 0.12 if k % 3 == 0 else 0.0
            hg = HistGen(rng, **kw)
            c = impl.run_history(hg, steps)
            cases.append(c)
        done += len(cases)
        divs, answers = corr.run_batch(cases) if fields is None else _run_batch_fields(cases, fields)
        if len(rep.xreqs) < (12 if rep.tier == 'quick' else 120):
            rep.xreqs += [[0, w] for (_, w, _) in cases[:12 if rep.tier == 'quick' else 120]]
        # oracles, batched through the terminal cache
        allf = []
        def go():
            del allf[:]
            for (ops, _, recs) in cases:
                f = []
                oracles.step_oracles(term, props, ops, recs, f)
                if extra_oracle:
                    extra_oracle(term, ops, recs, f)
                allf.append(f)
            return None
        term.two_phase(go)
        for (ops, wires, recs), d, f, ans in zip(cases, divs, allf, answers):
            nt = any(len(o[9]) >= 2 for r in recs if r.get('obs') for o in r['obs']) or any(r['res'][0] != 'ok' for r in recs)
            rep.count({'history': pretty(ops)}, nt if nontrivial is None else nontrivial(ops, recs))
            for op, r in zip(ops, recs):
                rep.bump('op:' + op[0])
                if r['res'][0] != 'ok':
                    rep.bump('result:' + str(r['res'][0]) + (':%s' % r['res'][1] if len(r['res']) > 1 else ''))
            rep.bump('histories')
            if any(len(set(t for (_, t) in l)) < len(l) for r in recs if r.get('obs') for o in r['obs'] for l in o[2]):
                rep.bump('histories_with_equal_valued_overlap')
            if corr.table_drift(recs, ans):
                rep.bump('representation_drift')
            if f:
                for fl in f:
                    key = fl['oracle']
                    if key in seen_oracles and len(found_oracle) > 12:
                        continue
                    seen_oracles.add(key)
                    def still(cand, key=key):
                        o2, _, r2 = impl.run_history(cand)
                        ff = oracle_fails(term, props, o2, r2)
                        if extra_oracle:
                            def go2():
                                x = []
                                extra_oracle(term, o2, r2, x)
                                return x
                            ff = ff + term.two_phase(go2)
                        return any(x['oracle'] == key for x in ff)
                    cut = ops[:(fl.get('step', fl.get('where', {}).get('step', len(ops) - 1))) + 1]
                    small = shrink(cut, still) if len(found_oracle) < 6 else cut
                    o2, _, r2 = impl.run_history(small)
                    ff = [x for x in oracle_fails(term, props, o2, r2) if x['oracle'] == key]
                    if extra_oracle and not ff:
                        def go3():
                            x = []
                            extra_oracle(term, o2, r2, x)
                            return x
                        ff = [x for x in term.two_phase(go3) if x['oracle'] == key]
                    found_oracle.append({'oracle': key, 'history': pretty(small), 'failure': ff[0] if ff else fl})
                    break
            if d:
                if len(found_div) < 8:
                    def stilld(cand):
                        c2 = impl.run_history(cand)
                        dv, _ = corr.run_batch([c2]) if fields is None else _run_batch_fields([c2], fields)
                        return dv[0] is not None and dv[0]['what'].split(':')[-1] == d['what'].split(':')[-1]
                    cut = ops[:d['step'] + 1]
                    small = shrink(cut, stilld)
                    c2 = impl.run_history(small)
                    dv, _ = corr.run_batch([c2]) if fields is None else _run_batch_fields([c2], fields)
                    found_div.append({'history': pretty(small), 'divergence': dv[0] or d})
                else:
                    found_div.append({'history': pretty(ops[:d['step'] + 1]), 'divergence': d})
        if len(found_oracle) >= 12:
            break
    return found_oracle, found_div


def _run_batch_fields(cases, fields):
    from . import model
    answers = model.ask([[0, wires] for (_, wires, _) in cases])
    return [corr.first_divergence(ops, recs, ans, fields) for (ops, _, recs), ans in zip(cases, answers)], answers


def replay_history(props, ops, term=None, extra_oracle=None):
    term = term or Term()
    o2, w2, r2 = impl.run_history(ops)
    f = oracle_fails(term, props, o2, r2)
    if extra_oracle:
        def go():
            x = []
            extra_oracle(term, o2, r2, x)
            return x
        f = f + term.two_phase(go)
    d, _ = corr.run_batch([(o2, w2, r2)])
    return f, d[0]


def explore_list(rep, props, hists, term=None, extra_oracle=None, batch=500, tag='small_scope'):
    """run a FIXED list of (already small) histories: correspondence + oracles, no shrinking"""
    term = term or Term()
    found_oracle, found_div = [], []
    seen = set()
    for b in range(0, len(hists), batch):
        cases = [impl.run_history(h) for h in hists[b:b + batch]]
        divs, answers = corr.run_batch(cases)
        allf = []
        def go():
            del allf[:]
            for (ops, _, recs) in cases:
                f = []
                oracles.step_oracles(term, props, ops, recs, f)
                if extra_oracle:
                    extra_oracle(term, ops, recs, f)
                allf.append(f)
        term.two_phase(go)
        for (ops, wires, recs), d, f in zip(cases, divs, allf):
            rep.count({'history': pretty(ops)}, True)
            rep.bump(tag)
            for fl in f:
                if fl['oracle'] not in seen:
                    seen.add(fl['oracle'])
                    found_oracle.append({'oracle': fl['oracle'], 'history': pretty(ops), 'failure': fl})
            if d and len(found_div) < 8:
                found_div.append({'history': pretty(ops), 'divergence': d})
    return found_oracle, found_div
