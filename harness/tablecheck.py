"""Cross-check of the translator: every entry of the tables emitted from the Python AST is compared
with the value the imported module has at run time (exhaustive - the tables are finite).  A
difference means the AST reading and the running code disagree (a table patched after its literal, an
overridden property, a changed enum mechanism): the generated Coq tables then do not describe the
code and every obligation that uses them is void.

python -m harness.tablecheck  ->  prints TABLECHECK-OK / TABLECHECK-DIFF lines, exit 0/1"""
import importlib.util, os, sys

ROOT = os.path.dirname(os.path.dirname(os.path.abspath(__file__)))


def load_translator():
    spec = importlib.util.spec_from_file_location('translate', os.path.join(ROOT, 'tools', 'translate.py'))
    m = importlib.util.module_from_spec(spec)
    spec.loader.exec_module(m)
    return m


def run(src):
    tr = load_translator()
    _, summary, raw = tr.emit(os.path.join(src, 'ansi_string'))
    from ansi_string import ansi_param as ap, ansi_format as af, ansi_string as am
    diffs = []
    p, f = raw['param'], raw['format']
    # code table: AnsiParam(c).effect_type / .effect_fn for every code of the literal, and nothing else known
    lit = {k: (e, fn) for (k, e, fn) in p['table']}
    for c in range(0, 1200):
        try:
            prm = ap.AnsiParam(c)
        except ValueError:
            prm = None
        if prm is None:
            continue
        want = lit.get(c)
        try:
            got = ('GReset' if prm.effect_type.name == 'RESET' else 'GEff %s' % prm.effect_type.name, prm.effect_fn.name)
        except Exception as e:      # noqa
            got = ('error', repr(e))
        if want != got:
            diffs.append('code %d: literal %s, run time %s' % (c, want, got))
    rt_params = {m.name: m.value for m in ap.AnsiParam.__members__.values()}
    rt_names = {name: m.value for name, m in ap.AnsiParam.__members__.items()}
    if dict(p['params']) != rt_names:
        a, b = dict(p['params']), rt_names
        diffs.append('AnsiParam members differ: %s' % sorted(set(a.items()) ^ set(b.items()))[:6])
    for c in lit:
        if c not in set(rt_names.values()):
            diffs.append('code table key %d is not an AnsiParam value' % c)
    # clear dict
    rt_clear = {('GReset' if k.name == 'RESET' else 'GEff %s' % k.name): v.value for k, v in ap.EFFECT_CLEAR_DICT.items()}
    if dict(p['clear']) != rt_clear:
        diffs.append('EFFECT_CLEAR_DICT differs: %s' % sorted(set(dict(p['clear']).items()) ^ set(rt_clear.items()))[:6])
    # control functions
    rt_ctrl = {}
    for name, m in af._AnsiControlFn.__members__.items():
        rt_ctrl[name] = (list(m.setup_seq), m.num_args)
    tr_ctrl = {name: (list(s), k) for name, (s, k) in f['ctrl']}
    for name, v in tr_ctrl.items():
        if rt_ctrl.get(name) != v:
            diffs.append('_AnsiControlFn.%s: literal %s, run time %s' % (name, v, rt_ctrl.get(name)))
    if set(m.name for m in af._AnsiControlFn) != set(tr_ctrl):
        diffs.append('_AnsiControlFn members differ')
    # constants
    for k, v in f['consts'].items():
        if getattr(af, k, None) != v:
            diffs.append('constant %s: literal %r, run time %r' % (k, v, getattr(af, k, None)))
    if tuple(af.ansi_term_ord_range) != tuple(f['term_range']):
        diffs.append('ansi_term_ord_range differs')
    if am.WHITESPACE_CHARS != raw['ws']:
        diffs.append('WHITESPACE_CHARS differs')
    # AnsiFormat members: the settings each member carries at run time against the translated expression
    pd = dict(p['params'])
    exprs = dict(f['formats'])
    def clamp(x):
        return min(255, max(0, x))
    def eval_expr(e, depth=0):
        if e.startswith('FParam'):
            return [str(int(e.split()[1]))]
        if e.startswith('FAlias'):
            return eval_expr(exprs[e.split('"')[1]], depth + 1)
        # FCall H_name [(a); (b)]
        h = e.split()[1][2:]
        args = [int(x.strip('() ')) for x in e[e.index('[') + 1:e.rindex(']')].split(';') if x.strip()]
        comp = {'rgb': 'fg', 'fg_rgb': 'fg', 'bg_rgb': 'bg', 'ul_rgb': 'ul', 'dul_rgb': 'dul', 'color256': 'fg', 'fg_color256': 'fg',
                'bg_color256': 'bg', 'ul_color256': 'ul', 'dul_color256': 'dul'}[h]
        if 'rgb' in h:
            if len(args) == 3:
                tail = [2] + [clamp(a) for a in args]
            else:
                v = args[0]
                tail = [2, (v & 0xff0000) >> 16, (v & 0xff00) >> 8, v & 0xff]
        else:
            tail = [5, args[0]]
        lead = {'fg': [38], 'bg': [48], 'ul': [58], 'dul': [58]}[comp]
        pre = {'ul': ['4'], 'dul': ['21']}.get(comp, [])
        return pre + [';'.join(map(str, lead + tail))]
    n = 0
    for name, m in af.AnsiFormat.__members__.items():
        if name not in exprs:
            diffs.append('AnsiFormat.%s exists at run time but was not translated' % name)
            continue
        got = [str(s) for s in m.ansi_settings]
        want = eval_expr(exprs[name])
        n += 1
        if got != want:
            diffs.append('AnsiFormat.%s: translated %s, run time %s' % (name, want, got))
    for name in exprs:
        if name not in af.AnsiFormat.__members__:
            diffs.append('AnsiFormat.%s translated but absent at run time' % name)
    return summary, n, diffs


def main():
    src = os.environ.get('VERIF_SRC', '/repo/src')
    try:
        summary, n, diffs = run(src)
    except Exception as e:  # noqa
        if type(e).__name__ == 'Untranslatable':     # the AST reading does not know this source shape: not an alarm
            print('TABLECHECK-NA: the source text has a shape the AST reading does not know (%s); tables come from the imported package only' % e)
            return 0
        print('TABLECHECK-FAIL: %s: %s' % (type(e).__name__, e))
        return 2
    for d in diffs[:20]:
        print('TABLECHECK-DIFF: ' + d)
    if not diffs:
        print('TABLECHECK-OK codes=%d params=%d clear=%d ctrl=%d formats=%d (all entries compared with the imported module)' % (
            summary['codes'], summary['params'], summary['clear'], summary['ctrl'], n))
    return 1 if diffs else 0


if __name__ == '__main__':
    sys.exit(main())
