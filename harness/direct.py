"""Direct (non-history) explorations: pure functions of the library against the model and against
statement-level oracles."""
import itertools, random, re

import ansi_string
from ansi_string import (AnsiString, AnsiStr, AnsiFormat, AnsiSetting, ParsedAnsiControlSequenceString,
                         parse_graphic_sequence, settings_to_dict)
from ansi_string import ansi_string as _mod
from . import model
from .impl import guarded, Hang, ERR
from .sx import to_str
from .term import EFFECTS, DEFAULT_STATE


def errcode(e):
    return ERR.get(type(e), 9)


# ====================================================================== C19
CSI_RE = re.compile('\x1b\\[([^\x40-\x7e]*)([\x40-\x7e]?)', re.S)


def regex_tokenise(s, allow_empty, acceptable):
    """independent tokenisation: -> (unformatted, {index: [(body, term)]})"""
    out, seqs, i = [], {}, 0
    while i < len(s):
        m = CSI_RE.match(s, i) if s.startswith('\x1b[', i) else None
        if m:
            body, term = m.group(1), m.group(2)
            ok = (term != '' or allow_empty) and (acceptable is None or term in acceptable)
            if ok:
                seqs.setdefault(len(out), []).append((body, term))
            else:
                out.extend(m.group(0))
            i = m.end()
        else:
            out.append(s[i])
            i += 1
    return ''.join(out), seqs


C19_FLAGS = [(True, None), (False, None), (False, 'm'), (True, 'mJ')]


class _LoudInt(int):
    """an int subclass whose str() is not its decimal form"""
    def __str__(self):
        return 'loud'


import enum as _enum
_IE = _enum.IntEnum('_IE', {'THREE': 3})
_IF = _enum.IntFlag('_IF', {'FOUR': 4})
# integers that are not plain int objects -> how the replay file names them
INT_KINDS = {True: 'bool', False: 'bool', _LoudInt(7): 'int subclass with its own __str__', _IE.THREE: 'IntEnum member', _IF.FOUR: 'IntFlag member'}
_KIND_VALUES = {('bool', 1): True, ('bool', 0): False, ('int subclass with its own __str__', 7): _LoudInt(7), ('IntEnum member', 3): _IE.THREE, ('IntFlag member', 4): _IF.FOUR}


def c19_cases(rng, tier):
    alpha = ['\x1b', '[', '1', ';', 'm', 'J', 'a']
    maxlen = 5 if tier == 'quick' else 6
    for n in range(maxlen + 1):
        for tup in itertools.product(alpha, repeat=n):
            yield ''.join(tup)
    more = 3000 if tier == 'quick' else 60000
    alpha2 = alpha + ['\x1b[', '\x1b[', '?', ' ', '\x40', '\x7e', '\x7f', 'é', '0', '\n']
    for _ in range(more):
        yield ''.join(rng.choice(alpha2) for _ in range(rng.randint(0, 14)))


def c19_run(rep, rng, tier):
    viol, div = [], []
    cases = list(c19_cases(rng, tier))
    reqs, meta = [], []
    for s in cases:
        for (ae, acc) in C19_FLAGS:
            reqs.append([1, ae, ([] if acc is None else [acc]), s])
            meta.append((s, ae, acc))
    rep.xreqs += reqs[:30] + reqs[-30:]
    answers = model.ask(reqs, chunk=4000)
    for (s, ae, acc), a in zip(meta, answers):
        payload = {'input': s, 'allow_empty_terminator': ae, 'acceptable_terminators': acc}
        rep.count(payload, '\x1b[' in s)
        rep.bump('len:%d' % min(len(s), 8))
        try:
            p = ParsedAnsiControlSequenceString(s, ae, acc)
            unf = p.unformatted_str
            seqs = {k: [(q.sequence, q.terminator) for q in v] for k, v in p.sequences.items()}
        except Exception as e:      # noqa
            viol.append({'oracle': 'C19.constructor', 'case': payload, 'msg': 'constructor raised %r' % e})
            continue
        eu, es = regex_tokenise(s, ae, acc)
        if unf != eu or seqs != es:
            viol.append({'oracle': 'C19.tokens', 'case': payload,
                         'msg': 'unformatted_str/sequences %r %r, independent tokenisation gives %r %r' % (unf, seqs, eu, es)})
            continue
        for what, fn in (('formatted_str', lambda: p.formatted_str), ('str()', lambda: str(p)), ('repr()', lambda: repr(p))):
            try:
                got = fn()
            except Exception as e:  # noqa
                got = 'raised %s' % type(e).__name__
            if got != s:
                viol.append({'oracle': 'C19.' + what, 'case': payload, 'msg': '%s gives %r for input %r' % (what, got, s)})
                break
        # the classification methods of each removed sequence (the glue AnsiString relies on to pick SGR sequences)
        for v in p.sequences.values():
            for q in v:
                tv = len(q.terminator) == 1 and 0x40 <= ord(q.terminator) <= 0x7e
                if q.is_terminator_valid() != tv or q.is_graphic() != (q.terminator == 'm'):
                    viol.append({'oracle': 'C19.classify', 'case': payload,
                                 'msg': 'sequence %r terminator %r: is_terminator_valid()=%s is_graphic()=%s' % (q.sequence, q.terminator, q.is_terminator_valid(), q.is_graphic())})
        # correspondence with the model
        munf = to_str(a[0])
        mseqs = {k: [(to_str(b), (chr(t[0]) if t else '')) for (b, t) in l] for (k, l) in a[1]}
        if munf != unf or mseqs != seqs:
            div.append({'case': payload, 'what': 'tokenizer', 'impl': [unf, seqs], 'model': [munf, mseqs]})
    # every parse is the caller's own: editing what an earlier call returned (the public `sequences` dict, its lists, the sequence
    # objects in them) does not reach a later parse of the same string with the same flags
    own = [c for c in cases if '\x1b[' in c][:: max(1, len([c for c in cases if '\x1b[' in c]) // (250 if tier == 'quick' else 5000))]
    for s in own:
        for (ae, acc) in C19_FLAGS:
            payload = {'input': s, 'allow_empty_terminator': ae, 'acceptable_terminators': acc, 'history': 'parse; edit the returned sequences; parse again'}
            rep.count(payload, True)
            m = c19_own(s, ae, acc)
            if m:
                viol.append({'oracle': 'C19.own', 'case': payload, 'msg': m})
    # a str SUBCLASS as input stands for its str value: an AnsiStr overrides len / indexing / == with text-level meanings,
    # the parser must read the raw string (as set_ansi_str does)
    from ansi_string import AnsiStr as _AnsiStr
    for w in ('abc', '', 'a\x1b[2Jb', '\x1b[31mx', 'x\x1b['):
        for sett in ((), ('bold',), ('red', '[1;4')):
            a = _AnsiStr(w, *sett)
            raw = str.__str__(a)
            for (ae, acc) in C19_FLAGS:
                payload = {'input': 'AnsiStr(%r, *%r) with str value %r' % (w, sett, raw), 'allow_empty_terminator': ae, 'acceptable_terminators': acc, 'ansistr': [w, list(sett)]}
                rep.count(payload, True)
                m = c19_ansistr(a, raw, ae, acc)
                if m:
                    viol.append({'oracle': 'C19.subclass', 'case': payload, 'msg': m})
    # helpers
    helpers = [('cursor_up_str', 'A'), ('cursor_down_str', 'B'), ('cursor_forward_str', 'C'), ('cursor_backward_str', 'D'),
               ('cursor_back_str', 'D'), ('cursor_next_line_str', 'E'), ('cursor_previous_line_str', 'F'),
               ('cursor_horizontal_absolute_str', 'G'), ('erase_in_display_str', 'J'), ('erase_in_line_str', 'K'),
               ('scroll_up_str', 'S'), ('scroll_down_str', 'T')]
    ns = list(range(-5, 40)) + [99, 100, 255, 256, 1000, 10 ** 6, 10 ** 12, -10 ** 9] + [rng.randint(0, 10 ** 5) for _ in range(20 if tier == 'quick' else 400)]
    hreqs, hmeta = [], []
    for name, fin in helpers:
        fn = getattr(ansi_string, name, None) or getattr(_mod, name)
        for n in ns + list(INT_KINDS):
            payload = {'helper': name, 'n': int(n)}
            if type(n) is not int:
                payload['kind'] = INT_KINDS[n]
            rep.count(payload, True)
            out = fn(n)
            exp = '\x1b[%d' % n + fin          # "its decimal arguments": whatever kind of integer is passed
            if out != exp:
                viol.append({'oracle': 'C19.helper', 'case': payload, 'msg': '%s(%d) = %r, expected %r' % (name, n, out, exp)})
                continue
            p = ParsedAnsiControlSequenceString(out)
            if p.unformatted_str != '' or [(q.sequence, q.terminator) for v in p.sequences.values() for q in v] != [('%d' % n, fin)]:
                viol.append({'oracle': 'C19.helper', 'case': payload, 'msg': 'parser does not recognise %r as one sequence' % out})
            hreqs.append([8, int(n), ord(fin)])
            hmeta.append((payload, out))
    fn = getattr(ansi_string, 'cursor_position_str', None) or _mod.cursor_position_str
    for r_ in ns[:30] + list(INT_KINDS):
        for c_ in (0, 1, 7, -2, 1000, True):
            payload = {'helper': 'cursor_position_str', 'row': int(r_), 'column': int(c_)}
            if type(r_) is not int or type(c_) is not int:
                payload['kind'] = '%s, %s' % (INT_KINDS.get(r_, 'int') if type(r_) is not int else 'int', 'bool' if c_ is True else 'int')
            rep.count(payload, True)
            out = fn(r_, c_)
            if out != '\x1b[%d;%dH' % (r_, c_):
                viol.append({'oracle': 'C19.helper', 'case': payload, 'msg': 'cursor_position_str gives %r' % out})
            hreqs.append([8, int(r_), int(c_), ord('H')])
            hmeta.append((payload, out))
    for (payload, out), a in zip(hmeta, model.ask(hreqs, chunk=4000)):
        if to_str(a) != out:
            div.append({'case': payload, 'what': 'helper', 'impl': out, 'model': to_str(a)})
    return viol, div


def c19_own(s, ae, acc):
    try:
        p1 = ParsedAnsiControlSequenceString(s, ae, acc)
        for k in list(p1.sequences):
            for q in p1.sequences[k]:
                q.sequence, q.terminator = 'edited', 'Z'
            p1.sequences[k].append(p1.sequences[k][0])
        for k in list(p1.sequences)[::2]:
            del p1.sequences[k]
        p1.sequences[99] = []
        p2 = ParsedAnsiControlSequenceString(s, ae, acc)
        eu, es = regex_tokenise(s, ae, acc)
        seqs = {k: [(q.sequence, q.terminator) for q in v] for k, v in p2.sequences.items()}
        if p2.unformatted_str != eu or seqs != es:
            return 'after the result of an earlier parse was edited, parsing %r again gives %r %r, independent tokenisation %r %r' % (s, p2.unformatted_str, seqs, eu, es)
        if p2.formatted_str != s:
            return 'after the result of an earlier parse was edited, formatted_str of a new parse is %r' % p2.formatted_str
    except Exception as e:  # noqa
        return 'raised %r' % e
    return None


def c19_ansistr(a, raw, ae, acc):
    try:
        p, q = ParsedAnsiControlSequenceString(a, ae, acc), ParsedAnsiControlSequenceString(raw, ae, acc)
        obs = lambda x: (str.__str__(x.unformatted_str), {k: [(str.__str__(y.sequence), str.__str__(y.terminator)) for y in v] for k, v in x.sequences.items()},
                         str.__str__(x.formatted_str))
        if obs(p) != obs(q):
            return 'parsing the AnsiStr gives %r, parsing its str value %r gives %r' % (obs(p), raw, obs(q))
        if str.__str__(p.formatted_str) != raw:
            return 'formatted_str %r is not the str value %r' % (p.formatted_str, raw)
    except Exception as e:  # noqa
        return 'raised %r' % e
    return None


def c19_replay(case):
    class R:     # minimal report stub
        def count(self, *a, **k): pass
        def bump(self, *a, **k): pass
    if 'history' in case:
        m = c19_own(case['input'], case['allow_empty_terminator'], case['acceptable_terminators'])
        return [m] if m else []
    if 'ansistr' in case:
        from ansi_string import AnsiStr as _AnsiStr
        a = _AnsiStr(case['ansistr'][0], *case['ansistr'][1])
        m = c19_ansistr(a, str.__str__(a), case['allow_empty_terminator'], case['acceptable_terminators'])
        return [m] if m else []
    if 'helper' in case:
        return c19_run_single_helper(case)
    s, ae, acc = case['input'], case['allow_empty_terminator'], case['acceptable_terminators']
    p = ParsedAnsiControlSequenceString(s, ae, acc)
    eu, es = regex_tokenise(s, ae, acc)
    seqs = {k: [(q.sequence, q.terminator) for q in v] for k, v in p.sequences.items()}
    if p.unformatted_str != eu or seqs != es:
        return ['tokens differ']
    out = []
    for what, fn in (('formatted_str', lambda: p.formatted_str), ('str()', lambda: str(p)), ('repr()', lambda: repr(p))):
        try:
            got = fn()
        except Exception as e:  # noqa
            got = 'raised %s' % type(e).__name__
        if got != s:
            out.append('%s gives %r' % (what, got))
    return out


def c19_run_single_helper(case):
    name = case['helper']
    fn = getattr(ansi_string, name, None) or getattr(_mod, name)
    if name == 'cursor_position_str':
        r_, c_ = case['row'], case['column']
        k = case.get('kind', 'int, int').split(', ')
        r_ = _KIND_VALUES.get((k[0], r_), r_)
        c_ = True if k[-1] == 'bool' and c_ == 1 else c_
        out = fn(r_, c_)
        return [] if out == '\x1b[%d;%dH' % (r_, c_) else ['cursor_position_str gives %r' % out]
    fin = {'cursor_up_str': 'A', 'cursor_down_str': 'B', 'cursor_forward_str': 'C', 'cursor_backward_str': 'D', 'cursor_back_str': 'D',
           'cursor_next_line_str': 'E', 'cursor_previous_line_str': 'F', 'cursor_horizontal_absolute_str': 'G', 'erase_in_display_str': 'J',
           'erase_in_line_str': 'K', 'scroll_up_str': 'S', 'scroll_down_str': 'T'}[name]
    n = _KIND_VALUES.get((case.get('kind'), case['n']), case['n'])
    out = fn(n)
    if out != '\x1b[%d' % n + fin:
        return ['%s gives %r' % (name, out)]
    p = ParsedAnsiControlSequenceString(out)
    if p.unformatted_str != '' or [(q.sequence, q.terminator) for v in p.sequences.values() for q in v] != [('%d' % n, fin)]:
        return ['parser does not recognise %r as one sequence' % out]
    return []


# ====================================================================== C18
def c18_own_result(d, prior):
    """The state settings_to_dict returns is the caller's own value: editing it reaches neither the prior state that was passed
    in ("the arguments are not modified") nor what a later call reads from the default state ("from its default state")."""
    from ansi_string.ansi_param import AnsiParamEffect
    snap = None if prior is None else (dict(prior), list(prior))
    d[AnsiParamEffect.ITALICS] = AnsiSetting('3')
    d[AnsiParamEffect.BG_COLOR] = AnsiSetting('44')
    d.pop(AnsiParamEffect.BOLDNESS, None)
    if prior is not None and (dict(prior), list(prior)) != snap:
        return 'editing the returned state changed the prior state that had been passed in: %s, was %s' % (
            {k.name: str(v) for k, v in prior.items()}, {k.name: str(v) for k, v in snap[0].items()})
    fresh = {k.name: str(v) for k, v in settings_to_dict(parse_graphic_sequence('1', False)).items()}
    if fresh != {'BOLDNESS': '1'}:
        return 'after the caller edited a state it had been given, the codes "1" read from the default state give %s' % fresh
    return None


def dict_state(d):
    """settings_to_dict result -> the shape of a terminal state (tuple of 14 groups)"""
    st = [None] * 14
    for k, v in d.items():
        name = k.name
        if name not in EFFECTS:
            return ('bad-key', name)
        try:
            g = tuple(int(x) for x in str(v).split(';'))
        except ValueError:
            return ('bad-value', str(v))
        if name == 'FONT_TYPE' and g == (10,):
            g = None
        st[EFFECTS.index(name)] = g
    return tuple(st)


TOKENS = [0, 1, 2, 4, 21, 22, 24, 31, 39, 38, 48, 58, 5, 2, 214, 255, 256, 99, 10, 11, 300]


def c18_code_lists(rng, tier):
    small = [0, 1, 22, 31, 38, 58, 5, 2, 7, 99, 256, 39]
    maxlen = 3 if tier == 'quick' else 4
    for n in range(0, maxlen + 1):
        for tup in itertools.product(small, repeat=n):
            yield list(tup)
    # groups placed at every position
    groups = [[38, 5, 214], [48, 2, 1, 2, 3], [58, 5, 9], [38, 2, 300, 1, 1], [38, 5], [38], [48, 2, 1, 2], [38, 5, 256], [58, 2, 0, 0, 0]]
    for g in groups:
        for pre in ([], [1], [31, 4], [0], [38]):
            for post in ([], [1], [22], [0], [5, 1], [2, 1, 2, 3]):
                yield pre + g + post
    for _ in range(4000 if tier == 'quick' else 200000):
        yield [rng.choice(TOKENS) for _ in range(rng.randint(1, 9))]


def c18_run(rep, rng, tier, term):
    viol, div = [], []
    lists = list(c18_code_lists(rng, tier))
    # ---- correspondence: list and str input, both flags
    reqs, meta = [], []
    for cs in lists:
        for ae in (False, True):
            reqs.append([2, 1, list(cs), ae]); meta.append(('list', cs, ae))
            s = ';'.join(map(str, cs))
            reqs.append([2, 0, s, ae]); meta.append(('str', s, ae))
    # irregular string / list inputs
    odd_strs = ['', ';', '1;;2', ' 1 ; 31 ', '2;', ';1', 'x', '1;x;2', '38;x;5;1', '38;5;x;7', '+1', '-1', '1_0', '38;5;-1', '1;38;5;214',
                '38;5;x;1', '38;5;1.5;4', '38;2;1;2;x;3;4', '\u0663', '\uff11', '3\u0661', '>4;2', '?1;31', '1:3;4', '38;5;1:2;4', '\xa01\xa0', '+1;4', '1;+3',
                '38;5', '38', '0', '00', '007', '4;58;2;1;2;3;24']
    str_inputs = odd_strs + [';'.join(rng.choice(['1', '31', '', ' 2', 'x', '38', '5', '214', '-3', '0', '+4', '\u0663', '1_0', '2', '48', '1.5', '>4']) for _ in range(rng.randint(1, 6))) for _ in range(1500 if tier == 'quick' else 40000)]
    str_inputs += [';'.join(rng.choice(['1', '31', '', '', '2', '38', '5', '214', '0', '22', '4', '48', '2']) for _ in range(rng.randint(1, 7))) for _ in range(1500 if tier == 'quick' else 40000)]
    for s in str_inputs:
        for ae in (False, True):
            reqs.append([2, 0, s, ae]); meta.append(('str', s, ae))
    odd_lists = [[], ['1', 31], [' 5 ', '38', 5, 1], ['x', 1], ['', 1], [1, ''], ['1', '', '31'], [38, 5, '', 1], [''], [' '], ['', ''], [1, ' x ', 2], ['+1', 4], ['1_0'], [38, 5, 'x', 1]]
    for l in odd_lists:
        for ae in (False, True):
            reqs.append([2, 1, [x if isinstance(x, int) else x for x in l], ae]); meta.append(('list', l, ae))
    rep.xreqs += reqs[:40] + reqs[-40:]
    answers = model.ask(reqs, chunk=5000)
    for (kind, inp, ae), a in zip(meta, answers):
        payload = {'input': inp, 'add_erroneous': ae}
        rep.count(payload, len(inp) > 1)
        rep.bump('pgs:%s' % kind)
        try:
            got = guarded(lambda: parse_graphic_sequence(list(inp) if kind == 'list' else inp, ae))
            got = ('ok', [str(x) for x in got])
        except Hang:
            viol.append({'oracle': 'C18.terminates', 'case': payload, 'msg': 'parse_graphic_sequence did not terminate'})
            continue
        except Exception as e:  # noqa
            got = ('err', errcode(e))
        m = ('ok', [to_str(x) for x in a[1]]) if a[0] == 0 else ('err', a[1])
        if got != m:
            div.append({'case': payload, 'what': 'parse_graphic_sequence', 'impl': got, 'model': m})
    # ---- oracle: reduce and compare with the terminal
    def oracle():
        out = []
        for cs in lists:
            payload = {'codes': cs}
            try:
                settings = parse_graphic_sequence(list(cs), False)
                d = settings_to_dict(settings)
            except Exception as e:  # noqa
                out.append({'oracle': 'C18.parse', 'case': payload, 'msg': 'raised %r' % e})
                continue
            exp = term.style([';'.join(map(str, cs))]) if cs else DEFAULT_STATE
            if exp is None:
                continue
            if dict_state(d) != exp:
                out.append({'oracle': 'C18.parse', 'case': payload,
                            'msg': 'settings %s reduce to %s, a terminal reaches %s' % ([str(x) for x in settings], dict_state(d), exp)})
                continue
            # add_erroneous=True: every integer token appears in order
            try:
                s2 = parse_graphic_sequence(list(cs), True)
                toks = [int(x) for st in s2 for x in str(st).split(';')]
            except Exception as e:  # noqa
                out.append({'oracle': 'C18.erroneous', 'case': payload, 'msg': 'raised %r' % e})
                continue
            if cs and toks != list(cs):
                out.append({'oracle': 'C18.erroneous', 'case': payload, 'msg': 'tokens %s returned for input %s' % (toks, cs)})
                continue
            m = c18_own_result(d, None)
            if m:
                out.append({'oracle': 'C18.dict.own', 'case': payload, 'msg': m})
        # a list is the ';'-separated string split at ';' (an empty item is 0), and it is not modified
        for w in odd_strs:
            for ae in (False, True):
                l = w.split(';')
                snap = list(l)
                try:
                    a = [str(x) for x in parse_graphic_sequence(w, ae)] if w else None
                    b = [str(x) for x in parse_graphic_sequence(l, ae)]
                except Exception as e:  # noqa
                    out.append({'oracle': 'C18.forms', 'case': {'string': w, 'add_erroneous': ae}, 'msg': 'raised %r' % e})
                    continue
                if l != snap:
                    out.append({'oracle': 'C18.forms', 'case': {'string': w, 'add_erroneous': ae}, 'msg': 'parse_graphic_sequence modified its list argument: %r -> %r' % (snap, l)})
                if a is not None and a != b:
                    out.append({'oracle': 'C18.forms', 'case': {'string': w, 'add_erroneous': ae},
                                'msg': 'parse_graphic_sequence(%r) gives %s but the same items as a list %r give %s' % (w, a, snap, b)})
        # settings_to_dict on settings whose first item is NOT a decimal number (hand-made, or kept by add_erroneous=True): a terminal
        # reads no code there, so the state does not move - int() alone would read '+1', '1_0', non-ASCII digits, '-0'
        for t in ('+1', '\u0663', '1_0', '-0', '+39;x', '1.0', 'x', '+0', '\uff11', '0x1', '1e0'):
            for prior_codes in ((), (1, 31)):
                try:
                    d0 = settings_to_dict(parse_graphic_sequence(list(prior_codes), False)) if prior_codes else {}
                    snap = {k.name: str(v) for k, v in d0.items()}
                    d1 = {k.name: str(v) for k, v in settings_to_dict([AnsiSetting(t)], d0).items()}
                except Exception as e:  # noqa
                    out.append({'oracle': 'C18.dict.text', 'case': {'setting': t, 'prior': list(prior_codes)}, 'msg': 'raised %r' % e})
                    continue
                if d1 != snap:
                    out.append({'oracle': 'C18.dict.text', 'case': {'setting': t, 'prior': list(prior_codes)},
                                'msg': 'settings_to_dict([AnsiSetting(%r)], %s) gives %s: the text is no decimal code, a terminal leaves the state at %s' % (t, snap, d1, snap)})
        # a str SUBCLASS stands for the plain string it denotes: an AnsiStr (formatted or not) for its text, as sequence and as item
        from ansi_string import AnsiStr as _AnsiStr
        for w in [x for x in odd_strs if x and '\x1b' not in x] + ['38;5;1', '1;31', '48;2;1;2;3;4']:
            for ae in (False, True):
                try:
                    ref = [str(x) for x in parse_graphic_sequence(w, ae)]
                    a1 = [str(x) for x in parse_graphic_sequence(_AnsiStr(w), ae)]
                    a2 = [str(x) for x in parse_graphic_sequence(_AnsiStr(w, 'cyan'), ae)]
                    a3 = [str(x) for x in parse_graphic_sequence([_AnsiStr(p, 'bold') if p else p for p in w.split(';')], ae)]
                except Exception as e:  # noqa
                    out.append({'oracle': 'C18.forms', 'case': {'string': w, 'add_erroneous': ae, 'given as': 'AnsiStr'}, 'msg': 'raised %r' % e})
                    continue
                if a1 != ref or a2 != ref or a3 != ref:
                    out.append({'oracle': 'C18.forms', 'case': {'string': w, 'add_erroneous': ae, 'given as': 'AnsiStr'},
                                'msg': 'parse_graphic_sequence(%r) gives %s; given as AnsiStr %s, as formatted AnsiStr %s, as list of formatted AnsiStr items %s' % (w, ref, a1, a2, a3)})
        # "a list of ints/strings": the same codes written as decimal strings, or mixed, split exactly like the ints
        for cs in lists[::3]:
            if not cs:
                continue
            for ae in (False, True):
                try:
                    ref = [str(x) for x in parse_graphic_sequence(list(cs), ae)]
                    as_str = [str(x) for x in parse_graphic_sequence([str(c) for c in cs], ae)]
                    mixed = [str(x) for x in parse_graphic_sequence([(str(c) if k % 2 else c) for k, c in enumerate(cs)], ae)]
                except Exception as e:  # noqa
                    out.append({'oracle': 'C18.forms', 'case': {'codes': cs, 'add_erroneous': ae}, 'msg': 'raised %r' % e})
                    continue
                if as_str != ref or mixed != ref:
                    out.append({'oracle': 'C18.forms', 'case': {'codes': cs, 'add_erroneous': ae},
                                'msg': 'codes %s as ints give %s, as decimal strings %s, mixed %s' % (cs, ref, as_str, mixed)})
        # ';'-separated string input: the code list is what a terminal reads from the same characters
        # (an empty parameter is 0)
        for w in str_inputs:
            m = c18_str_oracle(w, term)
            if m:
                out.append({'oracle': 'C18.str', 'case': {'string': w}, 'msg': m})
        return out
    viol += term.two_phase(oracle)
    # ---- settings_to_dict on top of a prior state; arguments untouched
    pairs = [(rng.choice(lists[:3000]), rng.choice(lists[:3000])) for _ in range(1500 if tier == 'quick' else 30000)]
    def oracle2():
        out = []
        for old, new in pairs:
            try:
                d0 = settings_to_dict(parse_graphic_sequence(list(old), False)) if old else {}
                st_new = parse_graphic_sequence(list(new), False)
                snap_d, snap_l = dict(d0), [str(x) for x in st_new]
                d1 = settings_to_dict(st_new, d0)
            except Exception as e:  # noqa
                out.append({'oracle': 'C18.dict', 'case': {'old': old, 'new': new}, 'msg': 'raised %r' % e})
                continue
            if dict(d0) != snap_d or [str(x) for x in st_new] != snap_l or list(d0) != list(snap_d):
                out.append({'oracle': 'C18.dict.args', 'case': {'old': old, 'new': new}, 'msg': 'settings_to_dict modified an argument'})
            a, b = term.style([';'.join(map(str, old))]) if old else DEFAULT_STATE, None
            # old must consist of complete groups for the concatenated reading to be meaningful
            inf = term.info(';'.join(map(str, old))) if old else (True, True, 0, True)
            if a is None or inf is None:
                continue
            if old and not inf[3]:
                continue
            exp = term.style(([';'.join(map(str, old))] if old else []) + ([';'.join(map(str, new))] if new else ['0']))
            if exp is None:
                continue
            if dict_state(d1) != exp:
                out.append({'oracle': 'C18.dict', 'case': {'old': old, 'new': new},
                            'msg': 'dict %s, terminal %s' % (dict_state(d1), exp)})
                continue
            m = c18_own_result(d1, d0)
            if m:
                out.append({'oracle': 'C18.dict.own', 'case': {'old': old, 'new': new}, 'msg': m})
        return out
    for p in pairs:
        rep.count({'old': p[0], 'new': p[1]}, True)
    viol += term.two_phase(oracle2)
    # ---- settings_to_dict correspondence (dict order included)
    sreqs, smeta = [], []
    for old, new in pairs[:800]:
        try:
            so = [str(x) for x in parse_graphic_sequence(list(old), False)] if old else []
            sn = [str(x) for x in parse_graphic_sequence(list(new), False)] if new else ['0']
            d0 = settings_to_dict([AnsiSetting(x) for x in so])
            d1 = settings_to_dict([AnsiSetting(x) for x in sn], d0)
        except Exception:  # noqa
            continue
        oldw = [[EFFECTS.index(k.name), str(v)] for k, v in d0.items() if k.name in EFFECTS]
        sreqs.append([3, sn, oldw])
        smeta.append(((old, new), [[EFFECTS.index(k.name), str(v)] for k, v in d1.items() if k.name in EFFECTS]))
    for ((old, new), got), a in zip(smeta, model.ask(sreqs, chunk=4000)):
        m = [[e, to_str(t)] for (e, t) in a]
        if m != got:
            div.append({'case': {'old': old, 'new': new}, 'what': 'settings_to_dict', 'impl': got, 'model': m})
    return viol, div


def c18_str_oracle(w, term):
    """the state a terminal reaches on the code list a ';'-separated string denotes.  An item is a code when it consists of
    decimal digits (the library tolerates blanks around them; an empty item is 0); any other item is no code at all: it
    contributes nothing AND ends an extended-colour group in progress, so the items between two such items are read as
    code lists of their own, one after the other."""
    if not w:
        return None
    runs, cur = [], []
    for tok in w.split(';'):
        t = tok.strip()
        if t == '' or (t.isascii() and t.isdigit() and len(t) < 4000):
            cur.append(t or '0')
        else:
            runs.append(cur); cur = []
    runs.append(cur)
    try:
        settings = parse_graphic_sequence(w, False)
        d = settings_to_dict(settings)
    except Exception as e:  # noqa
        return 'parse_graphic_sequence(%r) raised %r' % (w, e)
    # each run is a code list of its own: feed them to the terminal as separate SGR sequences and read the state of the next character
    r = term.run(''.join('\x1b[' + ';'.join(x) + 'm' for x in runs if x) + 'X')
    exp = None if r is None else r[1][0]
    if exp is None:
        return None
    if dict_state(d) != exp:
        return 'parse_graphic_sequence(%r) gives %s which reduce to %s, a terminal reaches %s' % (w, [str(x) for x in settings], dict_state(d), exp)
    return None


def c18_replay(v, term):
    case = v['case']
    if 'setting' in case and 'prior' in case:
        d0 = settings_to_dict(parse_graphic_sequence(list(case['prior']), False)) if case['prior'] else {}
        snap = {k.name: str(v) for k, v in d0.items()}
        d1 = {k.name: str(v) for k, v in settings_to_dict([AnsiSetting(case['setting'])], d0).items()}
        return None if d1 == snap else 'settings_to_dict([AnsiSetting(%r)], %s) gives %s' % (case['setting'], snap, d1)
    if case.get('given as') == 'AnsiStr':
        from ansi_string import AnsiStr as _AnsiStr
        w, ae = case['string'], case['add_erroneous']
        ref = [str(x) for x in parse_graphic_sequence(w, ae)]
        forms = (_AnsiStr(w), _AnsiStr(w, 'cyan'), [_AnsiStr(p, 'bold') if p else p for p in w.split(';')])
        got = [[str(x) for x in parse_graphic_sequence(f, ae)] for f in forms]
        return None if all(g == ref for g in got) else 'parse_graphic_sequence(%r) gives %s; given as AnsiStr forms: %s' % (w, ref, got)
    if 'string' in case:
        return c18_str_oracle(case['string'], term)
    if 'codes' in case:
        cs = case['codes']
        settings = parse_graphic_sequence(list(cs), False)
        d = settings_to_dict(settings)
        exp = term.style([';'.join(map(str, cs))]) if cs else DEFAULT_STATE
        if dict_state(d) != exp:
            return 'settings %s reduce to %s, a terminal reaches %s' % ([str(x) for x in settings], dict_state(d), exp)
        toks = [int(x) for st in parse_graphic_sequence(list(cs), True) for x in str(st).split(';')]
        if cs and toks != list(cs):
            return 'add_erroneous=True tokens %s' % toks
        return c18_own_result(d, None)
    if 'old' in case:
        old, new = case['old'], case['new']
        d0 = settings_to_dict(parse_graphic_sequence(list(old), False)) if old else {}
        d1 = settings_to_dict(parse_graphic_sequence(list(new), False), d0)
        exp = term.style(([';'.join(map(str, old))] if old else []) + ([';'.join(map(str, new))] if new else ['0']))
        if dict_state(d1) != exp:
            return 'dict %s, terminal %s' % (dict_state(d1), exp)
        return c18_own_result(d1, d0)
    return None
