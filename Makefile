# Build of the verification framework.  Everything lands under /verif/build or next to the .v files.
SRC ?= /repo/src/ansi_string
COQDIR := coq
OCAMLDIR := build/ocaml
PY := /venv/bin/python

.PHONY: setup translate coq driver clean

setup: translate coq driver

translate:
	PYTHONPATH=$(dir $(patsubst %/,%,$(SRC))) PYTHONDONTWRITEBYTECODE=1 $(PY) tools/translate_rt.py $(COQDIR)/Gen
	python3 tools/translate_fns.py $(SRC) $(COQDIR)/Gen

$(COQDIR)/Makefile.coq: $(COQDIR)/_CoqProject
	cd $(COQDIR) && coq_makefile -f _CoqProject -o Makefile.coq

coq: $(COQDIR)/Makefile.coq
	mkdir -p $(OCAMLDIR)
	cd $(COQDIR) && timeout 3000 $(MAKE) -f Makefile.coq -j12

driver: coq
	@if [ ! -x $(OCAMLDIR)/driver ] || [ $(OCAMLDIR)/model.ml -nt $(OCAMLDIR)/driver ] || [ ocaml/driver.ml -nt $(OCAMLDIR)/driver ]; then \
	  cp ocaml/driver.ml $(OCAMLDIR)/driver.ml && cd $(OCAMLDIR) && \
	  ocamlfind ocamlopt -O3 -w -a model.mli model.ml driver.ml -o driver.tmp && mv driver.tmp driver && echo DRIVER-BUILT; \
	fi

clean:
	rm -rf build; cd $(COQDIR) && rm -f Makefile.coq Makefile.coq.conf .Makefile.coq.d && find . -name '*.vo' -o -name '*.vok' -o -name '*.vos' -o -name '*.glob' -o -name '.*.aux' | xargs rm -f; rm -f $(COQDIR)/Gen/*.v
