#!/usr/bin/env python3
"""Reflective table translator: the *data* of the ansi_string package (code -> effect table, enum members, clear
codes, control-function table, constants, AnsiFormat members) -> the same Coq definitions under coq/Gen/ that
tools/translate.py emits, but read from the IMPORTED package instead of from the shape of its source text.

Why both: the AST reading (translate.py) fails closed on any source shape it does not know, so a harmless
rewrite of how a table is BUILT (a comprehension, a helper function, rows per effect group) used to stop every
check whose proofs use the tables.  What the library computes with is the value the table has after the module
was executed; this translator emits exactly that, so a rewrite that leaves the values alone leaves the generated
files alone - and a rewrite that changes a value changes the generated file and has to get past the same
obligations (Proofs/GenCodeTable.v ...) as before.  The AST reading is kept as a cross-check (harness/tablecheck.py):
where it recognises the source it must agree entry by entry; where it does not, that is recorded, not alarmed.

Trusted in addition: CPython's evaluation of the module-level definitions of ansi_param.py / ansi_format.py (the
same interpreter the implementation runs on in every correspondence run).

usage (with PYTHONPATH=<src>): /venv/bin/python translate_rt.py <out dir>      (exit 0 = ok, 3 = cannot translate)
"""
import importlib.util, os, re, sys

HERE = os.path.dirname(os.path.abspath(__file__))


def load_ast_translator():
    spec = importlib.util.spec_from_file_location('translate', os.path.join(HERE, 'translate.py'))
    m = importlib.util.module_from_spec(spec)
    spec.loader.exec_module(m)
    return m


T = load_ast_translator()
Untranslatable = T.Untranslatable

EFFECTS_V = os.path.join(os.path.dirname(HERE), 'coq', 'Effects.v')


def known_effects():
    """constructor names of Effects.effect - a new effect group cannot be expressed in the model"""
    txt = open(EFFECTS_V, encoding='utf-8').read()
    m = re.search(r'Inductive effect\s*(?::\s*\w+\s*)?:=(.*?)\.', txt, re.S)
    if not m:
        raise Untranslatable('cannot read the effect type of coq/Effects.v')
    return set(re.findall(r'[A-Z][A-Z_0-9]+', m.group(1)))


def eff_term(e, known):
    if e.name == 'RESET':
        return 'GReset'
    if e.name not in known:
        raise Untranslatable('effect %s has no constructor in coq/Effects.v' % e.name)
    return 'GEff %s' % e.name


def decompile(texts):
    """the settings a member carries -> an fmt_expr that evaluates to exactly them (checked by the caller)"""
    if len(texts) == 1 and re.fullmatch(r'[0-9]+', texts[0]) and str(int(texts[0])) == texts[0]:
        return 'FParam %d' % int(texts[0])
    lead = None
    if len(texts) == 1:
        m = re.fullmatch(r'(38|48);(2|5);([0-9;]+)', texts[0])
        if m:
            lead, mode, tail = {'38': 'fg', '48': 'bg'}[m.group(1)], m.group(2), m.group(3)
    elif len(texts) == 2 and texts[0] in ('4', '21'):
        m = re.fullmatch(r'58;(2|5);([0-9;]+)', texts[1])
        if m:
            lead, mode, tail = {'4': 'ul', '21': 'dul'}[texts[0]], m.group(1), m.group(2)
    if lead is None:
        raise Untranslatable('member settings %r have no fmt_expr form' % (texts,))
    args = [int(x) for x in tail.split(';')]
    if any(str(a) != x for a, x in zip(args, tail.split(';'))):
        raise Untranslatable('non-canonical number in %r' % (texts,))
    if mode == '2' and len(args) == 3 and all(0 <= a <= 255 for a in args):
        return 'FCall H_%s_rgb [%s]' % (lead, '; '.join('(%d)' % a for a in args))
    if mode == '5' and len(args) == 1:
        return 'FCall H_%s_color256 [%s]' % (lead, '(%d)' % args[0])
    raise Untranslatable('member settings %r have no fmt_expr form' % (texts,))


def eval_expr(e, exprs):
    """what the model's evaluator gives for an fmt_expr (independent re-evaluation of decompile's answer)"""
    if e.startswith('FParam'):
        return [str(int(e.split()[1]))]
    if e.startswith('FAlias'):
        return eval_expr(exprs[e.split('"')[1]], exprs)
    h = e.split()[1][2:]
    args = [int(x.strip('() ')) for x in e[e.index('[') + 1:e.rindex(']')].split(';') if x.strip()]
    comp = h.split('_')[0] if h.split('_')[0] in ('fg', 'bg', 'ul', 'dul') else 'fg'
    if 'rgb' in h:
        tail = [2] + [min(255, max(0, a)) for a in args] if len(args) == 3 else [2, (args[0] & 0xff0000) >> 16, (args[0] & 0xff00) >> 8, args[0] & 0xff]
    else:
        tail = [5, args[0]]
    lead = {'fg': [38], 'bg': [48], 'ul': [58], 'dul': [58]}[comp]
    pre = {'ul': ['4'], 'dul': ['21']}.get(comp, [])
    return pre + [';'.join(map(str, lead + tail))]


def read_runtime():
    from ansi_string import ansi_param as ap, ansi_format as af, ansi_string as am
    known = known_effects()
    # ---- ansi_param
    eff_names = [m.name for m in ap.AnsiParamEffect]
    fn_names = [m.name for m in ap.AnsiParamEffectFn]
    table = []
    for code in sorted(set(m.value for m in ap.AnsiParam)):
        if not (isinstance(code, int) and not isinstance(code, bool) and code >= 0):
            raise Untranslatable('AnsiParam value %r is not a non-negative int' % (code,))
        p = ap.AnsiParam(code)
        if p.effect_fn.name not in fn_names:
            raise Untranslatable('unknown effect function %r' % (p.effect_fn,))
        table.append((code, eff_term(p.effect_type, known), p.effect_fn.name))
    params = [(name, m.value) for name, m in ap.AnsiParam.__members__.items()]
    clear = [(eff_term(k, known), v.value) for k, v in ap.EFFECT_CLEAR_DICT.items()]
    # ---- ansi_format
    wanted = ['ansi_sep', 'ansi_escape', 'ansi_control_sequence_introducer', 'ansi_graphic_rendition_code_terminator',
              'ansi_graphic_rendition_code_end', 'ansi_graphic_rendition_format', 'ansi_escape_clear']
    consts = {}
    for w in wanted:
        v = getattr(af, w, None)
        if not isinstance(v, str):
            raise Untranslatable('constant %s is not a str' % w)
        consts[w] = v
    rng = tuple(af.ansi_term_ord_range)
    if len(rng) != 2 or not all(isinstance(x, int) for x in rng):
        raise Untranslatable('ansi_term_ord_range is not a pair of ints')
    ctrl = []
    for m in af._AnsiControlFn:
        setup, k = list(m.setup_seq), m.num_args
        if not all(isinstance(x, int) and x >= 0 for x in setup) or not isinstance(k, int) or k < 0:
            raise Untranslatable('_AnsiControlFn.%s has an unexpected shape' % m.name)
        ctrl.append((m.name, (setup, k)))
    formats, exprs = [], {}
    for name, m in af.AnsiFormat.__members__.items():
        if name != m.name:
            if m.name not in exprs:
                raise Untranslatable('alias %s precedes its target' % name)
            e = 'FAlias "%s"%%string' % m.name
        else:
            texts = [str(s) for s in m.ansi_settings]
            e = decompile(texts)
            exprs[name] = e
            if eval_expr(e, exprs) != texts:
                raise Untranslatable('AnsiFormat.%s: %r does not evaluate back to %r' % (name, e, texts))
        exprs.setdefault(name, e)
        formats.append((name, e))
    ws = am.WHITESPACE_CHARS
    if not isinstance(ws, str):
        raise Untranslatable('WHITESPACE_CHARS is not a str')
    return dict(param=dict(eff_names=eff_names, fn_names=fn_names, table=table, params=params, clear=clear),
                format=dict(consts=consts, term_range=rng, ctrl=ctrl, formats=formats), ws=ws)


def main():
    out = sys.argv[1]
    try:
        raw = read_runtime()
        files, summary = T.emit_files(raw['param'], raw['format'], raw['ws'])
    except Untranslatable as e:
        print('TRANSLATE-FAIL: %s' % e)
        sys.exit(3)
    except Exception as e:  # noqa: the package does not import / a table has an unexpected type
        print('TRANSLATE-FAIL: %s: %s' % (type(e).__name__, e))
        sys.exit(3)
    os.makedirs(out, exist_ok=True)
    for name, text in files.items():
        text = text.replace('GENERATED by tools/translate.py from /repo/src/ansi_string',
                            'GENERATED by tools/translate_rt.py from the imported ansi_string package')
        path = os.path.join(out, name)
        old = open(path, encoding='utf-8').read() if os.path.exists(path) else None
        if old != text:
            with open(path, 'w', encoding='utf-8') as fh:
                fh.write(text)
    print('TRANSLATE-OK %s' % ' '.join('%s=%d' % kv for kv in sorted(summary.items())))


if __name__ == '__main__':
    main()
