#!/usr/bin/env python3
"""Fail-closed translator: the *data* of /repo/src/ansi_string (code tables, enum members,
constants) -> Coq definitions under coq/Gen/.  Works on the Python AST only (nothing is imported or
evaluated); any shape it does not know makes it stop with a diagnostic.  Files are rewritten only
when their bytes change so that `make` stays incremental.

usage: translate.py <src dir> <out dir>          (exit 0 = ok, 3 = cannot translate)
"""
import ast, sys, os

class Untranslatable(Exception):
    pass

def fail(node, msg):
    raise Untranslatable('%s (line %s)' % (msg, getattr(node, 'lineno', '?')))

def parse(path):
    with open(path, encoding='utf-8') as f:
        return ast.parse(f.read(), path)

def class_def(mod, name):
    for n in mod.body:
        if isinstance(n, ast.ClassDef) and n.name == name:
            return n
    raise Untranslatable('class %s not found' % name)

def assigns(body):
    """(name, value node) for every simple assignment in a class/module body; other statements
    (function definitions, docstrings, imports, del) are hand-modelled or irrelevant and skipped."""
    for n in body:
        if isinstance(n, ast.Assign):
            if len(n.targets) != 1 or not isinstance(n.targets[0], ast.Name):
                fail(n, 'unsupported assignment target')
            yield n.targets[0].id, n.value, n
        elif isinstance(n, ast.AnnAssign):
            if not isinstance(n.target, ast.Name) or n.value is None:
                fail(n, 'unsupported annotated assignment')
            yield n.target.id, n.value, n
        elif isinstance(n, (ast.FunctionDef, ast.Import, ast.ImportFrom, ast.Delete, ast.ClassDef)):
            continue
        elif isinstance(n, ast.Expr) and isinstance(n.value, ast.Constant) and isinstance(n.value.value, str):
            continue
        else:
            fail(n, 'unsupported statement %s' % type(n).__name__)

def attr_chain(node):
    parts = []
    while isinstance(node, ast.Attribute):
        parts.append(node.attr)
        node = node.value
    if not isinstance(node, ast.Name):
        return None
    parts.append(node.id)
    return list(reversed(parts))

def is_enum_auto(v):
    return isinstance(v, ast.Call) and isinstance(v.func, ast.Name) and v.func.id in ('enum_auto', 'auto') and not v.args

# ---------------------------------------------------------------- ansi_param.py
def tr_param(mod):
    eff_names, eff_alias = [], {}
    for name, v, n in assigns(class_def(mod, 'AnsiParamEffect').body):
        if is_enum_auto(v):
            eff_names.append(name)
        elif isinstance(v, ast.Name) and (v.id in eff_names or v.id in eff_alias):
            eff_alias[name] = eff_alias.get(v.id, v.id)
        else:
            fail(n, 'AnsiParamEffect member of unknown shape')
    fn_names = [name for name, v, n in assigns(class_def(mod, 'AnsiParamEffectFn').body) if is_enum_auto(v) or fail(n, 'AnsiParamEffectFn member')]

    def eff(node):
        c = attr_chain(node)
        if not c or len(c) != 2 or c[0] != 'AnsiParamEffect':
            fail(node, 'expected AnsiParamEffect.X')
        nm = eff_alias.get(c[1], c[1])
        if nm not in eff_names:
            fail(node, 'unknown effect %s' % nm)
        return 'GReset' if nm == 'RESET' else 'GEff %s' % nm

    def efn(node):
        c = attr_chain(node)
        if not c or len(c) != 2 or c[0] != 'AnsiParamEffectFn' or c[1] not in fn_names:
            fail(node, 'expected AnsiParamEffectFn.X')
        return c[1]

    table = clear = None
    params, palias = [], {}
    for name, v, n in assigns(mod.body):
        if name == '_ANSI_CODE_TO_EFFECT':
            if not isinstance(v, ast.Dict):
                fail(n, 'code table is not a dict literal')
            table = []
            for k, val in zip(v.keys, v.values):
                if not (isinstance(k, ast.Constant) and isinstance(k.value, int) and not isinstance(k.value, bool) and k.value >= 0):
                    fail(k, 'code table key is not a non-negative int literal')
                if not (isinstance(val, ast.Tuple) and len(val.elts) == 2):
                    fail(val, 'code table value is not a pair')
                table.append((k.value, eff(val.elts[0]), efn(val.elts[1])))
            if len(set(k for k, _, _ in table)) != len(table):
                fail(n, 'duplicate key in code table')   # a later duplicate would silently win in Python
    for name, v, n in assigns(class_def(mod, 'AnsiParam').body):
        if isinstance(v, ast.Constant) and isinstance(v.value, int) and not isinstance(v.value, bool) and v.value >= 0:
            params.append((name, v.value))
        elif isinstance(v, ast.Name) and v.id in dict(params):
            params.append((name, dict(params)[v.id]))
        else:
            fail(n, 'AnsiParam member of unknown shape')
    pd = dict(params)
    for name, v, n in assigns(mod.body):
        if name == 'EFFECT_CLEAR_DICT':
            if not isinstance(v, ast.Dict):
                fail(n, 'EFFECT_CLEAR_DICT is not a dict literal')
            clear = []
            for k, val in zip(v.keys, v.values):
                c = attr_chain(val)
                if not c or len(c) != 2 or c[0] != 'AnsiParam' or c[1] not in pd:
                    fail(val, 'expected AnsiParam.X')
                clear.append((eff(k), pd[c[1]]))
            if len(set(k for k, _ in clear)) != len(clear):
                fail(n, 'duplicate key in EFFECT_CLEAR_DICT')
    if table is None or clear is None:
        raise Untranslatable('code table or clear dict not found')
    return dict(eff_names=eff_names, fn_names=fn_names, table=table, params=params, clear=clear)

# ---------------------------------------------------------------- ansi_format.py
def const_str(node, env):
    if isinstance(node, ast.Constant) and isinstance(node.value, str):
        return node.value
    if isinstance(node, ast.Name) and node.id in env and isinstance(env[node.id], str):
        return env[node.id]
    if isinstance(node, ast.BinOp) and isinstance(node.op, ast.Add):
        return const_str(node.left, env) + const_str(node.right, env)
    if (isinstance(node, ast.Call) and isinstance(node.func, ast.Attribute) and node.func.attr == 'format'
            and len(node.args) == 1 and not node.keywords):
        tmpl = const_str(node.func.value, env)
        if tmpl.count('{}') != 1 or tmpl.replace('{}', '').count('{') or tmpl.replace('{}', '').count('}'):
            fail(node, 'unsupported format template')
        return tmpl.replace('{}', const_str(node.args[0], env))
    fail(node, 'not a constant string expression')

HELPERS = ['rgb', 'fg_rgb', 'bg_rgb', 'ul_rgb', 'dul_rgb', 'color256', 'fg_color256', 'bg_color256',
           'ul_color256', 'dul_color256']
HELPER_ALIAS = {'colour256': 'color256', 'fg_colour256': 'fg_color256', 'bg_colour256': 'bg_color256',
                'ul_colour256': 'ul_color256', 'dul_colour256': 'dul_color256'}

def tr_format(mod, pd):
    env = {}
    wanted = ['ansi_sep', 'ansi_escape', 'ansi_control_sequence_introducer', 'ansi_graphic_rendition_code_terminator',
              'ansi_graphic_rendition_code_end', 'ansi_graphic_rendition_format', 'ansi_escape_clear']
    rng = None
    for name, v, n in assigns(mod.body):
        if name in wanted:
            env[name] = const_str(v, env)
        elif name == 'ansi_term_ord_range':
            if not (isinstance(v, ast.Tuple) and len(v.elts) == 2 and all(isinstance(e, ast.Constant) and isinstance(e.value, int) for e in v.elts)):
                fail(n, 'ansi_term_ord_range is not a pair of int literals')
            rng = (v.elts[0].value, v.elts[1].value)
    for w in wanted:
        if w not in env:
            raise Untranslatable('constant %s not found' % w)
    if rng is None:
        raise Untranslatable('ansi_term_ord_range not found')

    def param_value(node):
        c = attr_chain(node)
        if not c or len(c) != 3 or c[0] != 'AnsiParam' or c[2] != 'value' or c[1] not in pd:
            fail(node, 'expected AnsiParam.X.value')
        return pd[c[1]]

    ctrl, ctrl_alias = [], {}
    for name, v, n in assigns(class_def(mod, '_AnsiControlFn').body):
        if isinstance(v, ast.Name) and (v.id in dict(ctrl) or v.id in ctrl_alias):
            ctrl_alias[name] = ctrl_alias.get(v.id, v.id)
            continue
        if not (isinstance(v, ast.Tuple) and len(v.elts) == 2 and isinstance(v.elts[0], ast.Tuple)
                and isinstance(v.elts[1], ast.Constant) and isinstance(v.elts[1].value, int)):
            fail(n, '_AnsiControlFn member of unknown shape')
        setup = []
        for e in v.elts[0].elts:
            if isinstance(e, ast.Constant) and isinstance(e.value, int):
                setup.append(e.value)
            else:
                setup.append(param_value(e))
        ctrl.append((name, (setup, v.elts[1].value)))

    formats = []
    seen = set()
    for name, v, n in assigns(class_def(mod, 'AnsiFormat').body):
        if isinstance(v, ast.Name):
            if v.id not in seen:
                fail(n, 'alias to unknown member %s' % v.id)
            formats.append((name, 'FAlias "%s"%%string' % v.id))
        elif isinstance(v, ast.Attribute):
            formats.append((name, 'FParam %d' % param_value(v)))
        elif isinstance(v, ast.Call):
            c = attr_chain(v.func)
            if not c or len(c) != 2 or c[0] != '_AnsiControlFn' or v.keywords:
                fail(n, 'AnsiFormat member: unsupported call')
            h = HELPER_ALIAS.get(c[1], c[1])
            if h not in HELPERS:
                fail(n, 'AnsiFormat member: unknown helper %s' % c[1])
            args = []
            for a in v.args:
                if not (isinstance(a, ast.Constant) and isinstance(a.value, int) and not isinstance(a.value, bool)):
                    fail(a, 'helper argument is not an int literal')
                args.append(a.value)
            formats.append((name, 'FCall H_%s [%s]' % (h, '; '.join('(%d)' % a for a in args))))
        else:
            fail(n, 'AnsiFormat member of unknown shape')
        seen.add(name)
    return dict(consts=env, term_range=rng, ctrl=ctrl, formats=formats)

def tr_string(mod):
    for name, v, n in assigns(mod.body):
        if name == 'WHITESPACE_CHARS':
            return const_str(v, {})
    raise Untranslatable('WHITESPACE_CHARS not found')

# ---------------------------------------------------------------- emission
def nlist(s):
    return '[' + '; '.join(str(ord(c)) for c in s) + ']%N'

def emit(src):
    p = tr_param(parse(os.path.join(src, 'ansi_param.py')))
    pd = dict(p['params'])
    f = tr_format(parse(os.path.join(src, 'ansi_format.py')), pd)
    ws = tr_string(parse(os.path.join(src, 'ansi_string.py')))
    files, summary = emit_files(p, f, ws)
    return files, summary, dict(param=p, format=f, ws=ws)

def emit_files(p, f, ws):
    hdr = '(* GENERATED by tools/translate.py from /repo/src/ansi_string - do not edit *)\nFrom Coq Require Import String.\nFrom AS Require Import Base Effects.\nLocal Open Scope N_scope.\n\n'
    files = {}
    files['CodeTable.v'] = hdr + (
        'Definition gen_code_table : list (N * (geffect * gfn)) :=\n  [ ' +
        ';\n    '.join('(%d, (%s, %s))' % t for t in p['table']) + ' ].\n\n' +
        'Definition gen_params : list (String.string * N) :=\n  [ ' +
        ';\n    '.join('("%s"%%string, %d)' % t for t in p['params']) + ' ].\n')
    files['ClearDict.v'] = hdr + (
        'Definition gen_clear : list (geffect * N) :=\n  [ ' +
        ';\n    '.join('(%s, %d)' % t for t in p['clear']) + ' ].\n')
    files['CtrlFns.v'] = hdr + (
        'Definition gen_ctrl_fns : list (list N * nat) :=\n  [ ' +
        ';\n    '.join('([%s], %d%%nat)' % ('; '.join(map(str, s)), k) for _, (s, k) in f['ctrl']) + ' ].\n')
    c = f['consts']
    files['Consts.v'] = hdr + ''.join(
        'Definition gen_%s : str := %s.\n' % (k, nlist(c[k])) for k in sorted(c)) + (
        'Definition gen_term_lo : N := %d.\nDefinition gen_term_hi : N := %d.\n' % f['term_range'] +
        'Definition gen_whitespace_chars : str := %s.\n' % nlist(ws))
    files['Formats.v'] = hdr.replace('Local Open Scope N_scope.', 'Local Open Scope Z_scope.') + (
        'Definition gen_formats : list (String.string * fmt_expr) :=\n  [ ' +
        ';\n    '.join('("%s"%%string, %s)' % (n, e.replace('FParam ', 'FParam ') + ('%N' if e.startswith('FParam') else '')) for n, e in f['formats']) + ' ].\n')
    summary = dict(codes=len(p['table']), params=len(p['params']), clear=len(p['clear']), ctrl=len(f['ctrl']),
                   formats=len(f['formats']))
    return files, summary

def main():
    src, out = sys.argv[1], sys.argv[2]
    try:
        files, summary, _ = emit(src)
    except (Untranslatable, SyntaxError, OSError) as e:
        print('TRANSLATE-FAIL: %s' % e)
        sys.exit(3)
    os.makedirs(out, exist_ok=True)
    for name, text in files.items():
        path = os.path.join(out, name)
        old = None
        if os.path.exists(path):
            with open(path, encoding='utf-8') as fh:
                old = fh.read()
        if old != text:
            with open(path, 'w', encoding='utf-8') as fh:
                fh.write(text)
    print('TRANSLATE-OK %s' % ' '.join('%s=%d' % kv for kv in sorted(summary.items())))

if __name__ == '__main__':
    main()
