#!/usr/bin/env python3
"""Run quick checks against a PATCHED copy of the repository without touching /repo or /verif:
a scratch git worktree of /repo (HEAD + patch) and a scratch copy of /verif, both under a fresh temporary
directory that is removed afterwards.  Used to try behaviour-preserving refactorings (no check may raise an
alarm) and seeded changes in parallel.  Results are NOT evidence - they only tell how the machinery reacts.

usage: trypatch.py <patch.diff> [--tier quick|thorough] [ids ...]      (default: all properties)
prints one line per property: <id> exit <code> | <summary lines>, then TESTS <pytest tail>"""
import json, os, shutil, subprocess, sys, tempfile

VERIF = os.environ.get('TRYPATCH_VERIF') or os.path.dirname(os.path.dirname(os.path.abspath(__file__)))   # a frozen copy may be given


def sh(cmd, cwd=None, env=None, timeout=None):
    p = subprocess.run(cmd, shell=True, cwd=cwd, env=env, stdout=subprocess.PIPE, stderr=subprocess.STDOUT, text=True, timeout=timeout)
    return p.returncode, '\n'.join(l for l in p.stdout.splitlines() if 'conda' not in l)


def main():
    args = sys.argv[1:]
    tier = 'quick'
    if '--tier' in args:
        i = args.index('--tier'); tier = args[i + 1]; del args[i:i + 2]
    patch = os.path.abspath(args[0])
    ids = args[1:] or [c['property_id'] for c in json.load(open(os.path.join(VERIF, 'MANIFEST.json')))['checks']]
    tmp = tempfile.mkdtemp(prefix='trypatch_')
    repo, verif = os.path.join(tmp, 'repo'), os.path.join(tmp, 'verif')
    rc_all = 0
    try:
        rc, out = sh('git -C /repo worktree add --detach %s HEAD' % repo)
        if rc:
            print('WORKTREE-FAIL', out); return 2
        rc, out = sh('git apply %s' % patch, cwd=repo)
        if rc:
            print('APPLY-FAIL', out); return 2
        rc, out = sh('/venv/bin/python -m pytest -q -p no:cacheprovider -x 2>&1 | tail -1', cwd=repo,
                     env=dict(os.environ, PYTHONPATH=os.path.join(repo, 'src')))
        print('TESTS', out.strip())
        shutil.copytree(VERIF, verif, ignore=shutil.ignore_patterns('.git', 'replays', 'seeded'), symlinks=True)
        env = dict(os.environ, VERIF_SRC=os.path.join(repo, 'src'))
        sh('make setup SRC=%s' % os.path.join(repo, 'src', 'ansi_string'), cwd=verif, env=env)
        for p in ids:
            rc, out = sh('./check %s --tier %s' % (p, tier), cwd=verif, env=env, timeout=7200)
            lines = [l for l in out.splitlines() if l.startswith('VIOLATION') or l.startswith('KNOWN') or l.startswith(p + ' ') or l.startswith('  ')]
            print('%s exit %d | %s' % (p, rc, ' | '.join(x.strip()[:400] for x in lines[-4:])), flush=True)
            rc_all |= rc
    finally:
        sh('git -C /repo worktree remove --force %s' % repo)
        sh('git -C /repo worktree prune')
        shutil.rmtree(tmp, ignore_errors=True)
    return 1 if rc_all else 0


if __name__ == '__main__':
    sys.exit(main())
