#!/usr/bin/env python3
"""Regenerate MANIFEST.json from the table below (checks claimed so far; the rest stays under not_applicable
with the reason 'not built yet' until its check exists)."""
import json, os, subprocess
ROOT = os.path.dirname(os.path.dirname(os.path.abspath(__file__)))
props = [json.loads(l) for l in open(os.path.join(ROOT, 'properties.jsonl'))]

CLAIMED = json.load(open(os.path.join(ROOT, 'tools', 'claims.json')))

def fix_commits():
    out = subprocess.run(['git', '-C', '/repo', 'log', '--format=%H %s'], capture_output=True, text=True).stdout
    return [l.split()[0] for l in out.split('\n') if ' fix:' in l]

checks = []
na = []
for p in props:
    i = p['id']
    if i in CLAIMED:
        c = CLAIMED[i]
        checks.append({
            'property_id': i,
            'quick_cmd': './check %s --tier quick' % i,
            'thorough_cmd': './check %s --tier thorough' % i,
            'evidence_file': '/verif/evidence/%s.json' % i,
            'replay_cmd_template': './check %s --replay {path}' % i,
            'engine': 'coq-proof+correspondence',
            'level_claimed': {'category': 'proof', 'text': c['text'], 'design_ref': c.get('design_ref', 'DESIGN.md section 6, %s' % i)},
            'level_note': c['note'],
            'technique': c.get('technique', 'machine-checked proof in Coq 8.16 over an executable model; model tied to /repo by generated tables and extracted-model correspondence'),
        })
    else:
        na.append({'property_id': i, 'reason': 'check not built yet in this session (framework under construction); nothing about the property prevents a proof-based check'})

m = {
    'version': 1,
    'setup_cmd': 'make -C /verif setup',
    'hooks': {
        'guard': 'TAILS86_ANSI_STRING_VERIF',
        'enable': 'no hook is needed: checks read /repo/src through PYTHONPATH and Python introspection, and set AnsiString.WITH_ASSERTIONS themselves; the variable is exported by ./check for completeness',
        'baseline_off_cmd': 'cd /repo && /venv/bin/python -m pytest -ra -q -p no:cacheprovider --timeout=900 --continue-on-collection-errors',
        'source_commits': [],
        'add_only': True,
    },
    'engines': [{'name': 'coq-proof+correspondence', 'path': '/verif/check',
                 'serves_properties': [c['property_id'] for c in checks],
                 'kind_free_text': 'Coq 8.16 theorems about an executable Gallina model (coq/), tables and six small functions regenerated from /repo by tools/translate_rt.py / tools/translate.py / tools/translate_fns.py, extracted OCaml model run side by side with the implementation (harness/), statement-level oracles from the extracted Coq specification'}],
    'checks': checks,
    'not_applicable': na,
    'notes': 'Repairs of genuine defects are unguarded "fix:" commits in /repo (listed in known_findings.json); no hook commits exist.',
}
json.dump(m, open(os.path.join(ROOT, 'MANIFEST.json'), 'w'), indent=1)
print('checks', len(checks), 'not yet', len(na))
