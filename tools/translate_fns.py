#!/usr/bin/env python3
"""Fail-closed translator for a few small PURE functions of /repo/src/ansi_string (integer / boolean
logic only) into Gallina, so that the hand-written model functions that stand for them are tied to the
source by a proof obligation (coq/Proofs/GenFns.v) instead of by sampling:

    AnsiString._slice_val_to_idx      -> gen_slice_val_to_idx : Z -> option Z -> Z -> Z
    AnsiSetting.valid                 -> gen_valid            : list Z -> bool        (code points)
    _AnsiControlFn.seq_starts_with_fn -> gen_seq_starts_with  : list Z -> list Z -> bool
    _AnsiControlFn.rgb (component arithmetic) -> gen_rgb_split : Z -> Z*Z*Z, gen_rgb_clamp : Z -> Z -> Z -> Z*Z*Z

Supported Python (anything else stops the translation with a diagnostic):
  statements   if / elif / else, `x = e`, `return e`, `for c in <seq>: if <cond>: return False` followed by
               `return True`, the memoisation idiom of `valid` (`if hasattr(self, "_valid"): return self._valid`,
               `self._valid = <bool>`), docstrings;
  expressions  int / bool constants, names, `x is None`, comparisons, and/or/not, + - *, min, max,
               len(self._s) (the text length parameter), len(<param>), ord(c), ansi_term_ord_range[0|1],
               zip(self.setup_seq, seq) in the prefix-test loop.
usage: translate_fns.py <src dir> <out dir>      (exit 0 = ok, 3 = cannot translate)"""
import ast, os, sys


class Untranslatable(Exception):
    pass


def fail(node, msg):
    raise Untranslatable('%s (line %s)' % (msg, getattr(node, 'lineno', '?')))


def find_method(tree, cls, name):
    for n in tree.body:
        if isinstance(n, ast.ClassDef) and n.name == cls:
            for m in n.body:
                if isinstance(m, ast.FunctionDef) and m.name == name:
                    return m
    raise Untranslatable('%s.%s not found' % (cls, name))


def strip_doc(body):
    if body and isinstance(body[0], ast.Expr) and isinstance(body[0].value, ast.Constant) and isinstance(body[0].value.value, str):
        return body[1:]
    return body


class Tr:
    """expression translator; env maps python names to Gallina terms"""
    def __init__(self, env, consts):
        self.env, self.consts = dict(env), consts

    def bex(self, n):
        """an expression in a boolean position: a parameter whose truthiness is a model parameter"""
        if isinstance(n, ast.Name) and ('truth:' + n.id) in self.env:
            return self.env['truth:' + n.id]
        return self.ex(n)

    def ex(self, n):
        if isinstance(n, ast.Constant):
            if isinstance(n.value, bool):
                return 'true' if n.value else 'false'
            if isinstance(n.value, int):
                return '(%d)' % n.value
            fail(n, 'unsupported constant')
        if isinstance(n, ast.Name):
            if n.id in self.env:
                return self.env[n.id]
            fail(n, 'unknown name %s' % n.id)
        if isinstance(n, ast.BinOp) and isinstance(n.op, (ast.Add, ast.Sub, ast.Mult)):
            op = {ast.Add: '+', ast.Sub: '-', ast.Mult: '*'}[type(n.op)]
            return '(%s %s %s)' % (self.ex(n.left), op, self.ex(n.right))
        if isinstance(n, ast.BinOp) and isinstance(n.op, ast.BitAnd):
            return '(Z.land %s %s)' % (self.ex(n.left), self.ex(n.right))
        if isinstance(n, ast.BinOp) and isinstance(n.op, ast.RShift):
            return '(Z.shiftr %s %s)' % (self.ex(n.left), self.ex(n.right))
        if isinstance(n, ast.UnaryOp) and isinstance(n.op, ast.USub):
            return '(- %s)' % self.ex(n.operand)
        if isinstance(n, ast.UnaryOp) and isinstance(n.op, ast.Not):
            return '(negb %s)' % self.bex(n.operand)
        if isinstance(n, ast.BoolOp):
            op = '&&' if isinstance(n.op, ast.And) else '||'
            return '(' + (' %s ' % op).join(self.bex(v) for v in n.values) + ')'
        if (isinstance(n, ast.Compare) and len(n.ops) == 1 and isinstance(n.ops[0], (ast.Is, ast.IsNot))
                and isinstance(n.comparators[0], ast.Constant) and n.comparators[0].value is None
                and isinstance(n.left, ast.Name) and ('none:' + n.left.id) in self.env):
            v = self.env['none:' + n.left.id]
            return v if isinstance(n.ops[0], ast.Is) else '(negb %s)' % v
        if (isinstance(n, ast.Call) and isinstance(n.func, ast.Attribute) and n.func.attr == 'floor' and isinstance(n.func.value, ast.Name)
                and n.func.value.id == 'math' and len(n.args) == 1 and isinstance(n.args[0], ast.BinOp) and isinstance(n.args[0].op, ast.Div)):
            # math.floor(a / b): float division, exact for |a| < 2^53 - read as integer floor division (stated in the obligation)
            return '(Z.div %s %s)' % (self.ex(n.args[0].left), self.ex(n.args[0].right))
        if isinstance(n, ast.BinOp) and isinstance(n.op, ast.FloorDiv):
            return '(Z.div %s %s)' % (self.ex(n.left), self.ex(n.right))
        if isinstance(n, ast.IfExp):
            return '(if %s then %s else %s)' % (self.bex(n.test), self.ex(n.body), self.ex(n.orelse))
        if isinstance(n, ast.Compare) and len(n.ops) > 1:
            # a < b <= c  ==  (a < b) and (b <= c)   (operands here are pure, so evaluating b twice is harmless)
            parts, left = [], n.left
            for o, r in zip(n.ops, n.comparators):
                parts.append(self.ex(ast.Compare(left=left, ops=[o], comparators=[r])))
                left = r
            return '(' + ' && '.join(parts) + ')'
        if isinstance(n, ast.Compare) and len(n.ops) == 1:
            l, r, o = n.left, n.comparators[0], n.ops[0]
            ops = {ast.Lt: '<?', ast.LtE: '<=?', ast.Eq: '=?'}
            if type(o) in ops:
                return '(%s %s %s)' % (self.ex(l), ops[type(o)], self.ex(r))
            if isinstance(o, ast.Gt):
                return '(%s <? %s)' % (self.ex(r), self.ex(l))
            if isinstance(o, ast.GtE):
                return '(%s <=? %s)' % (self.ex(r), self.ex(l))
            if isinstance(o, ast.NotEq):
                return '(negb (%s =? %s))' % (self.ex(l), self.ex(r))
            fail(n, 'unsupported comparison')
        if isinstance(n, ast.Call) and isinstance(n.func, ast.Name):
            f = n.func.id
            if f in ('min', 'max') and len(n.args) == 2 and not n.keywords:
                return '(Z.%s %s %s)' % (f, self.ex(n.args[0]), self.ex(n.args[1]))
            if f == 'len' and len(n.args) == 1:
                a = n.args[0]
                if isinstance(a, ast.Attribute) and isinstance(a.value, ast.Name) and a.value.id == 'self' and ('self.' + a.attr) in self.env:
                    return self.env['len(self.%s)' % a.attr] if ('len(self.%s)' % a.attr) in self.env else fail(n, 'len of unknown attribute')
                if isinstance(a, ast.Name) and ('len(%s)' % a.id) in self.env:
                    return self.env['len(%s)' % a.id]
                fail(n, 'unsupported len()')
            if f == 'ord' and len(n.args) == 1 and isinstance(n.args[0], ast.Name) and n.args[0].id in self.env:
                return self.env[n.args[0].id]          # characters are code points already
            fail(n, 'unsupported call %s' % f)
        if isinstance(n, ast.Subscript) and isinstance(n.value, ast.Name) and n.value.id in self.consts:
            idx = n.slice
            if isinstance(idx, ast.Constant) and idx.value in (0, 1):
                return '(%d)' % self.consts[n.value.id][idx.value]
            fail(n, 'unsupported subscript')
        fail(n, 'unsupported expression %s' % type(n).__name__)


def block(stmts, tr, is_none=None):
    """statement list -> Gallina expression (return-passing style)"""
    if not stmts:
        fail(None, 'control reaches the end of the function without return')
    s, rest = stmts[0], stmts[1:]
    if isinstance(s, ast.Return):
        return tr.ex(s.value)
    if isinstance(s, ast.Assign) and len(s.targets) == 1 and isinstance(s.targets[0], ast.Name):
        x = s.targets[0].id
        v = tr.ex(s.value)
        tr2 = Tr(tr.env, tr.consts); tr2.env[x] = x
        return '(let %s := %s in %s)' % (x, v, block(rest, tr2))
    if isinstance(s, ast.If):
        # `x is None` on an optional parameter becomes a match
        t = s.test
        if (isinstance(t, ast.Compare) and len(t.ops) == 1 and isinstance(t.ops[0], ast.Is)
                and isinstance(t.comparators[0], ast.Constant) and t.comparators[0].value is None
                and isinstance(t.left, ast.Name) and ('opt:' + t.left.id) in tr.env):
            x = t.left.id
            tr_some = Tr(tr.env, tr.consts); tr_some.env[x] = x
            del tr_some.env['opt:' + x]
            return '(match %s with None => %s | Some %s => %s end)' % (
                tr.env['opt:' + x], block(s.body + rest, tr), x, block(s.orelse + rest, tr_some))
        # `if c: x = e` without else: conditional update of a local
        if (not s.orelse and len(s.body) == 1 and isinstance(s.body[0], ast.Assign)
                and isinstance(s.body[0].targets[0], ast.Name) and s.body[0].targets[0].id in tr.env):
            x = s.body[0].targets[0].id
            return '(let %s := (if %s then %s else %s) in %s)' % (x, tr.ex(t), tr.ex(s.body[0].value), tr.env[x], block(rest, tr))
        return '(if %s then %s else %s)' % (tr.ex(t), block(s.body + rest, tr), block(s.orelse + rest, tr))
    fail(s, 'unsupported statement %s' % type(s).__name__)


def tr_slice_val(tree):
    fn = find_method(tree, 'AnsiString', '_slice_val_to_idx')
    params = [a.arg for a in fn.args.args]
    if params != ['self', 'val', 'default']:
        fail(fn, 'unexpected parameters %s' % params)
    env = {'opt:val': 'val', 'default': 'default', 'self._s': '_', 'len(self._s)': 'len'}
    body = block(strip_doc(fn.body), Tr(env, {}))
    return 'Definition gen_slice_val_to_idx (len : Z) (val : option Z) (default : Z) : Z :=\n  %s.\n' % body


def tr_valid(tree, consts):
    fn = find_method(tree, 'AnsiSetting', 'valid')
    body = strip_doc(fn.body)
    # memoisation idiom: if hasattr(self, "_valid"): return self._valid
    def is_self_attr(n, a):
        return isinstance(n, ast.Attribute) and n.attr == a and isinstance(n.value, ast.Name) and n.value.id == 'self'
    i = 0
    if (body and isinstance(body[0], ast.If) and isinstance(body[0].test, ast.Call) and isinstance(body[0].test.func, ast.Name)
            and body[0].test.func.id == 'hasattr' and len(body[0].body) == 1 and isinstance(body[0].body[0], ast.Return)
            and is_self_attr(body[0].body[0].value, '_valid') and not body[0].orelse):
        i = 1
    rest = body[i:]
    # self._valid = False ; for c in self._str: if <cond>: return False ; self._valid = True ; return self._valid
    shape_ok = (len(rest) == 4 and isinstance(rest[0], ast.Assign) and is_self_attr(rest[0].targets[0], '_valid')
                and isinstance(rest[0].value, ast.Constant) and rest[0].value.value is False
                and isinstance(rest[1], ast.For) and isinstance(rest[1].target, ast.Name) and is_self_attr(rest[1].iter, '_str')
                and len(rest[1].body) == 1 and isinstance(rest[1].body[0], ast.If) and not rest[1].body[0].orelse
                and len(rest[1].body[0].body) == 1 and isinstance(rest[1].body[0].body[0], ast.Return)
                and isinstance(rest[1].body[0].body[0].value, ast.Constant) and rest[1].body[0].body[0].value.value is False
                and not rest[1].orelse
                and isinstance(rest[2], ast.Assign) and is_self_attr(rest[2].targets[0], '_valid')
                and isinstance(rest[2].value, ast.Constant) and rest[2].value.value is True
                and isinstance(rest[3], ast.Return) and is_self_attr(rest[3].value, '_valid'))
    loop = rest[1] if shape_ok else None
    if not shape_ok:
        # as repaired (F57): the flag is stored only once it is known -
        # for c in self._str: if <cond>: self._valid = False; return False ; self._valid = True ; return self._valid
        shape2 = (len(rest) == 3 and isinstance(rest[0], ast.For) and isinstance(rest[0].target, ast.Name) and is_self_attr(rest[0].iter, '_str')
                  and len(rest[0].body) == 1 and isinstance(rest[0].body[0], ast.If) and not rest[0].body[0].orelse and not rest[0].orelse
                  and len(rest[0].body[0].body) == 2
                  and isinstance(rest[0].body[0].body[0], ast.Assign) and is_self_attr(rest[0].body[0].body[0].targets[0], '_valid')
                  and isinstance(rest[0].body[0].body[0].value, ast.Constant) and rest[0].body[0].body[0].value.value is False
                  and isinstance(rest[0].body[0].body[1], ast.Return) and isinstance(rest[0].body[0].body[1].value, ast.Constant)
                  and rest[0].body[0].body[1].value.value is False
                  and isinstance(rest[1], ast.Assign) and is_self_attr(rest[1].targets[0], '_valid')
                  and isinstance(rest[1].value, ast.Constant) and rest[1].value.value is True
                  and isinstance(rest[2], ast.Return) and is_self_attr(rest[2].value, '_valid'))
        if not shape2:
            fail(fn, 'AnsiSetting.valid does not have the expected loop shape')
        loop = rest[0]
    c = loop.target.id
    cond = Tr({c: c}, consts).ex(loop.body[0].test)
    return 'Definition gen_valid (s : list Z) : bool :=\n  negb (existsb (fun %s => %s) s).\n' % (c, cond)


def tr_starts_with(tree):
    fn = find_method(tree, '_AnsiControlFn', 'seq_starts_with_fn')
    body = strip_doc(fn.body)
    def is_len_of(n, what):
        return isinstance(n, ast.Call) and isinstance(n.func, ast.Name) and n.func.id == 'len' and len(n.args) == 1 and ast.unparse(n.args[0]) == what
    ok = (len(body) == 3 and isinstance(body[0], ast.If) and not body[0].orelse and len(body[0].body) == 1
          and isinstance(body[0].body[0], ast.Return) and isinstance(body[0].body[0].value, ast.Constant) and body[0].body[0].value.value is False
          and isinstance(body[0].test, ast.Compare) and len(body[0].test.ops) == 1 and isinstance(body[0].test.ops[0], ast.Lt)
          and is_len_of(body[0].test.left, 'seq') and is_len_of(body[0].test.comparators[0], 'self.setup_seq')
          and isinstance(body[1], ast.For) and ast.unparse(body[1].iter) == 'zip(self.setup_seq, seq)'
          and isinstance(body[1].target, ast.Tuple) and len(body[1].target.elts) == 2
          and len(body[1].body) == 1 and isinstance(body[1].body[0], ast.If) and not body[1].body[0].orelse
          and isinstance(body[1].body[0].body[0], ast.Return) and isinstance(body[1].body[0].body[0].value, ast.Constant)
          and body[1].body[0].body[0].value.value is False and not body[1].orelse
          and isinstance(body[2], ast.Return) and isinstance(body[2].value, ast.Constant) and body[2].value.value is True)
    if not ok:
        fail(fn, 'seq_starts_with_fn does not have the expected shape')
    a, b = body[1].target.elts[0].id, body[1].target.elts[1].id
    cond = Tr({a: a, b: b}, {}).ex(body[1].body[0].test)
    return ('Definition gen_seq_starts_with (setup seq : list Z) : bool :=\n'
            '  if (Z.of_nat (length seq) <? Z.of_nat (length setup)) then false\n'
            '  else negb (existsb (fun \'(%s, %s) => %s) (combine setup seq)).\n' % (a, b, cond))


def tr_rgb(tree):
    """_AnsiControlFn.rgb: the two ways the three components are computed (24-bit split / clamping)"""
    fn = find_method(tree, '_AnsiControlFn', 'rgb')
    params = [a.arg for a in fn.args.args]
    if params[:3] != ['r_or_rgb', 'g', 'b']:
        fail(fn, 'unexpected parameters %s' % params)
    body = strip_doc(fn.body)
    if not (body and isinstance(body[0], ast.If) and len(body[0].orelse) == 1 and isinstance(body[0].orelse[0], ast.If)):
        fail(fn, 'rgb: expected if / elif / else at the start')
    split_branch, clamp_branch = body[0].orelse[0].body, body[0].orelse[0].orelse
    def triple(stmts, what):
        assigns = [x for x in stmts if isinstance(x, ast.Assign)]
        others = [x for x in stmts if not isinstance(x, ast.Assign)]
        for o in others:
            if not (isinstance(o, ast.If) and len(o.body) == 1 and isinstance(o.body[0], ast.Raise) and not o.orelse):
                fail(o, 'rgb %s branch: unexpected statement' % what)
        names = [a.targets[0].id if isinstance(a.targets[0], ast.Name) else None for a in assigns]
        if names != ['r', 'g', 'b']:
            fail(stmts[0], 'rgb %s branch: expected assignments to r, g, b' % what)
        return assigns
    sp = triple(split_branch, 'split')
    cl = triple(clamp_branch, 'clamp')
    # in the split branch g and b are reassigned from r_or_rgb only; in the clamp branch each from its own parameter
    tr_s = Tr({'r_or_rgb': 'v'}, {})
    tr_c = Tr({'r_or_rgb': 'r', 'g': 'g', 'b': 'b'}, {})
    out = 'Definition gen_rgb_split (v : Z) : Z * Z * Z :=\n  (%s, %s, %s).\n\n' % tuple(tr_s.ex(a.value) for a in sp)
    out += 'Definition gen_rgb_clamp (r g b : Z) : Z * Z * Z :=\n  (%s, %s, %s).\n' % tuple(tr_c.ex(a.value) for a in cl)
    return out


def find_guard(fn, returns_none_pair=False, must_mention=('start', 'end')):
    """the test of the first top-level `if <test>: return` (or `return (None, None)`) of a method, with the statements before it"""
    body = strip_doc(fn.body)
    for i, st in enumerate(body):
        if isinstance(st, ast.If) and not st.orelse and len(st.body) == 1 and isinstance(st.body[0], ast.Return):
            r = st.body[0].value
            ok = (r is None) if not returns_none_pair else (isinstance(r, ast.Tuple) and len(r.elts) == 2 and all(isinstance(e, ast.Constant) and e.value is None for e in r.elts))
            if ok:
                names = set(x.id for x in ast.walk(st.test) if isinstance(x, ast.Name))
                if not set(must_mention) <= names:
                    # e.g. the guard was split into several ifs: not the shape this reading understands
                    fail(st, '%s: the first early return tests %s, expected a single guard over %s' % (fn.name, sorted(names), sorted(must_mention)))
                return st.test, body[:i]
    fail(fn, 'no early-return guard found in %s' % fn.name)


def check_bounds_prelude(fn, pre):
    """the statements before the guard must be exactly: start = self._slice_val_to_idx(start, 0); end = self._slice_val_to_idx(end, len(self._s))"""
    want = ['start = self._slice_val_to_idx(start, 0)', 'end = self._slice_val_to_idx(end, len(self._s))']
    got = [ast.unparse(x) for x in pre]
    # as repaired (F45): a bare integer is wrapped in a list first - it only touches `settings` (whose truth value is a parameter
    # of the generated guard: the model's form_falsy gives it, with FInt never falsy), not the bounds
    wrap = 'if isinstance(settings, int):\n    settings = [settings]'
    if got and got[0] == wrap:
        got = got[1:]
    if got != want:
        fail(fn, '%s: statements before the range guard are %s' % (fn.name, got))


def tr_guards(tree):
    out = []
    fa = find_method(tree, 'AnsiString', 'apply_formatting')
    t, pre = find_guard(fa, must_mention=('settings', 'start', 'end')); check_bounds_prelude(fa, pre)
    env = {'truth:settings': 'settings_truthy', 'start': 'start', 'end': 'en', 'self._s': '_', 'len(self._s)': 'len'}
    out.append('Definition gen_apply_skip (settings_truthy : bool) (start en len : Z) : bool :=\n  %s.\n' % Tr(env, {}).bex(t))
    fr = find_method(tree, 'AnsiString', 'remove_formatting')
    t, pre = find_guard(fr, must_mention=('settings', 'start', 'end')); check_bounds_prelude(fr, pre)
    env = {'truth:settings': 'settings_truthy', 'none:settings': 'settings_none', 'start': 'start', 'end': 'en', 'self._s': '_', 'len(self._s)': 'len'}
    out.append('Definition gen_remove_skip (settings_none settings_truthy : bool) (start en len : Z) : bool :=\n  %s.\n' % Tr(env, {}).bex(t))
    ff = find_method(tree, 'AnsiString', 'find_settings')
    t, pre = find_guard(ff, returns_none_pair=True); check_bounds_prelude(ff, pre)
    out.append('Definition gen_find_invalid (start en : Z) : bool :=\n  %s.\n' % Tr({'start': 'start', 'end': 'en'}, {}).bex(t))
    return '\n'.join(out)


def tr_center(tree):
    """center: how the fill is divided (left_spaces, right_spaces as functions of num = width - len)"""
    fn = find_method(tree, 'AnsiString', 'center')
    for st in ast.walk(fn):
        if isinstance(st, ast.If) and ast.unparse(st.test) == 'num > 0':
            a = [x for x in st.body if isinstance(x, ast.Assign) and isinstance(x.targets[0], ast.Name)]
            names = [x.targets[0].id for x in a[:2]]
            if names != ['left_spaces', 'right_spaces']:
                fail(st, 'center: expected left_spaces, right_spaces first in the num > 0 branch')
            l = Tr({'num': 'num'}, {}).ex(a[0].value)
            r = Tr({'num': 'num', 'left_spaces': 'left_spaces'}, {}).ex(a[1].value)
            return 'Definition gen_center_split (num : Z) : Z * Z :=\n  let left_spaces := %s in (left_spaces, %s).\n' % (l, r)
    fail(fn, 'center: no `if num > 0` branch')


# the reference form of each function: what the translation of the pinned source looks like.  When the source of a
# function has a shape the translator does not know, this text is emitted instead, the obligation in Proofs/GenFns*.v
# then says nothing about the code for THAT function, and the tie is the enumerated function-level correspondence
# (harness/fncorr.py), which runs in every check that uses Gen/Fns.v.  The status line names such functions.
REFERENCE = {
    'slice_val_to_idx': 'Definition gen_slice_val_to_idx (len : Z) (val : option Z) (default : Z) : Z :=\n'
                        '  match val with None => default | Some v => if v <? 0 then Z.max 0 (len + v) else Z.min v len end.\n',
    'valid': 'Definition gen_valid (s : list Z) : bool :=\n  negb (existsb (fun c => ((64 <=? c) && (c <=? 126))) s).\n',
    'seq_starts_with': 'Definition gen_seq_starts_with (setup seq : list Z) : bool :=\n'
                       '  if (Z.of_nat (length seq) <? Z.of_nat (length setup)) then false\n'
                       '  else negb (existsb (fun \'(mine, theirs) => (negb (mine =? theirs))) (combine setup seq)).\n',
    'rgb': 'Definition gen_rgb_split (v : Z) : Z * Z * Z :=\n'
           '  ((Z.shiftr (Z.land v (16711680)) (16)), (Z.shiftr (Z.land v (65280)) (8)), (Z.land v (255))).\n\n'
           'Definition gen_rgb_clamp (r g b : Z) : Z * Z * Z :=\n'
           '  ((Z.min (255) (Z.max (0) r)), (Z.min (255) (Z.max (0) g)), (Z.min (255) (Z.max (0) b))).\n',
    'guards': 'Definition gen_apply_skip (settings_truthy : bool) (start en len : Z) : bool :=\n'
              '  ((negb settings_truthy) || (len <=? start) || (en <=? start)).\n\n'
              'Definition gen_remove_skip (settings_none settings_truthy : bool) (start en len : Z) : bool :=\n'
              '  (((negb settings_none) && (negb settings_truthy)) || (len <=? start) || (en <=? start)).\n\n'
              'Definition gen_find_invalid (start en : Z) : bool :=\n  (en <? start).\n',
    'center': 'Definition gen_center_split (num : Z) : Z * Z :=\n  let left_spaces := (Z.div num (2)) in (left_spaces, (num - left_spaces)).\n',
}


def main():
    src, out = sys.argv[1], sys.argv[2]
    try:
        t1 = ast.parse(open(os.path.join(src, 'ansi_string.py'), encoding='utf-8').read())
        t2 = ast.parse(open(os.path.join(src, 'ansi_format.py'), encoding='utf-8').read())
    except (SyntaxError, OSError) as e:
        print('TRANSLATE-FNS-FAIL: %s' % e)
        sys.exit(3)
    consts = {}
    for n in t2.body:
        if isinstance(n, ast.Assign) and isinstance(n.targets[0], ast.Name) and n.targets[0].id == 'ansi_term_ord_range':
            if isinstance(n.value, ast.Tuple) and all(isinstance(e, ast.Constant) and isinstance(e.value, int) for e in n.value.elts):
                consts['ansi_term_ord_range'] = tuple(e.value for e in n.value.elts)
    parts, done, skipped = [], [], []
    for key, fn in (('slice_val_to_idx', lambda: tr_slice_val(t1)), ('valid', lambda: tr_valid(t2, consts)),
                    ('seq_starts_with', lambda: tr_starts_with(t2)), ('rgb', lambda: tr_rgb(t2)),
                    ('guards', lambda: tr_guards(t1)), ('center', lambda: tr_center(t1))):
        try:
            parts.append(fn())
            done.append(key)
        except Untranslatable as e:
            parts.append('(* NOT TRANSLATED (%s): reference form; tie = enumerated function-level correspondence *)\n' % str(e).replace('*)', '* )')
                         + REFERENCE[key])
            skipped.append('%s[%s]' % (key, e))
    text = ('(* GENERATED by tools/translate_fns.py from /repo/src/ansi_string - do not edit *)\n'
            'From Coq Require Import ZArith List Bool.\nImport ListNotations.\nLocal Open Scope Z_scope.\n\n' + '\n'.join(parts))
    os.makedirs(out, exist_ok=True)
    path = os.path.join(out, 'Fns.v')
    old = open(path, encoding='utf-8').read() if os.path.exists(path) else None
    if old != text:
        open(path, 'w', encoding='utf-8').write(text)
    print('TRANSLATE-FNS-OK translated=%s untranslated=%s' % (','.join(done) or '-', ' ; '.join(skipped) or '-'))


if __name__ == '__main__':
    main()
