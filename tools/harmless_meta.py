#!/usr/bin/env python3
"""Record how the quick checks reacted to each behaviour-preserving refactoring under harmless/: reads the trypatch logs
(<dir>/<patch>.log, one `Cxx exit N | ...` line per property) and writes harmless/<patch>/meta.json.
usage: harmless_meta.py <log dir>"""
import json, os, re, sys
ROOT = os.path.dirname(os.path.dirname(os.path.abspath(__file__)))
REGION = {'A': 'ansi_param.py (enums, code/effect tables)', 'B': 'ansi_format.py: AnsiSetting, _AnsiControlFn', 'C': 'ansi_format.py: constants, AnsiFormat',
          'D': 'ansi_parsing.py', 'E': 'ansi_string.py: range operations, queries, matching', 'F': 'ansi_string.py: rendering, concatenation, padding, editing, splitting',
          'G': 'ansi_string.py: settings points, scrubber, constructor, format spec', 'H': 'ansi_string.py: AnsiStr, cursor helpers', 'H1': 'three translated functions'}
WHAT = {
 'A-r1': 'AnsiParam.__init__ unpacks the looked-up tuple', 'A-r2': 'EFFECT_CLEAR_DICT built by a comprehension over AnsiParamEffect with a helper',
 'A-r3': 'code table rebuilt from one row per effect group; clear dict derived from the same rows',
 'B-r1': 'valid / parsable / to_list / seq_starts_with_fn: comparison chains, hoisted ord(), not any(...)', 'B-r2': 'parsable search loop extracted; valid with for...else; rgb branches swapped',
 'B-r3': 'shared _cached_check for valid/parsable; shared component dispatch and _clamp_8_bit for rgb/color256',
 'C-r1': 'constants via f-string / concatenation; AnsiFormat.__init__ int case folded', 'C-r2': 'AnsiFormat.__init__ grouping loop extracted into a module helper',
 'C-r3': 'AnsiFormat.__init__ via itertools.groupby; 13 static wrappers delegate directly',
 'D-r1': 'comparison chains, merged append branches, dict.pop', 'D-r2': '_expected_set_count helper; De Morgan on the acceptance test; setdefault',
 'D-r3': 'function table by first code; set_size countdown; shared _control_sequence_str; slice instead of char loop',
 'E-r1': '_slice_val_to_idx with max(); guard clauses; all() in find_settings', 'E-r2': 'remove_formatting restructured (predicate, merged branches, enumerate)',
 'E-r3': 'shared _resolve_range/_point_at/_settings_snapshots/_iter_matches across seven methods',
 'F-r1': 'is_formatting_* via all(); ljust condition merged; _strip via next(enumerate)', 'F-r2': '_partition_at and _substrings_for helpers shared by partition/split family',
 'F-r3': '_move_settings_point/_justify_target helpers; __iadd__ with one list of pairs; join via star-unpacking; to_str locals',
 'G-r1': 'set_ansi_str hoisted test; _shift_settings_idx De Morgan; _AnsiSettingPoint small rewrites; insert_settings slice assignment',
 'G-r2': 'three justify branches of _apply_string_format merged into a table + helper', 'G-r3': '_scrub_ansi_settings split into flatten + combine; set_ansi_str via flat list; two-phase _shift_settings_idx',
 'H-r1': 'AnsiStr.__new__ as one decision; __eq__ one expression', 'H-r2': '_csi_str helper for the 12 cursor/erase/scroll functions; AnsiStr._wrap_each',
 'H-r3': 'AnsiStr._from_modified_copy replaces the body of 23 wrapper methods', 'H1-fns': '_slice_val_to_idx with max(); valid with a comparison chain; rgb clamp as max(0, min(255, r))',
}


def main():
    d = sys.argv[1]
    for f in sorted(os.listdir(d)):
        if not f.endswith('.log'):
            continue
        name = f[:-4]
        txt = open(os.path.join(d, f)).read()
        quiet = re.findall(r'^(C\d\d) exit 0 ', txt, re.M)
        alarms = ['%s (%s)' % (p, 'no failing input' if 'no-failing-input-found' in l else 'failing input') for p, l in re.findall(r'^(C\d\d) exit [12] \|(.*)$', txt, re.M)]
        tests = (re.search(r'^TESTS (.*)$', txt, re.M) or [None, '?'])[1]
        out = os.path.join(ROOT, 'harmless', name)
        if not os.path.isdir(out):
            continue
        meta = {'patch': name, 'region': REGION.get(name.split('-')[0], ''), 'what': WHAT.get(name, ''), 'tests': tests, 'quiet': quiet, 'alarms': alarms,
                'ran': 'tools/trypatch.py harmless/%s/patch.diff (scratch worktree of /repo + scratch copy of /verif, every quick check)' % name}
        json.dump(meta, open(os.path.join(out, 'meta.json'), 'w'), indent=1)
        print(name, len(quiet), alarms)


if __name__ == '__main__':
    main()
