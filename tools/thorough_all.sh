#!/bin/sh
# run every thorough check against a given source tree (default /repo/src); used with `vp run --with-repo`
SRCROOT="${1:-/repo}"
shift
make setup SRC="$SRCROOT/src/ansi_string" > /dev/null 2>&1
for p in "$@"; do
  VERIF_SRC="$SRCROOT/src" ./check "$p" --tier thorough 2>&1 | grep -v conda | tail -3
done
