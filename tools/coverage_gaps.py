#!/usr/bin/env python3
"""List what NO check's cases reach in /repo/src/ansi_string: lines never executed and conditional jumps seen one way
only, merged over build/cov/<id>.json (written by every ./check run, harness/covmon.py).  A development aid for the
generators - a change on a line no case reaches cannot be noticed by the correspondence or the oracles.
usage: /venv/bin/python tools/coverage_gaps.py [--md notes/coverage_gaps.md]"""
import json, os, sys
ROOT = os.path.dirname(os.path.dirname(os.path.abspath(__file__)))
sys.path.insert(0, ROOT)
from harness import covmon


def main():
    covmon._root = os.path.realpath(os.path.join(os.environ.get('VERIF_SRC', '/repo/src'), 'ansi_string'))
    d = os.path.join(ROOT, 'build', 'cov')
    ids = []
    for f in sorted(os.listdir(d)) if os.path.isdir(d) else []:
        covmon.load(json.load(open(os.path.join(d, f)))); ids.append(f[:-5])
    out = ['# Implementation code no check reaches', '',
           'Merged over the quick runs of: %s.' % ' '.join(ids), '']
    for p, (missed, one) in covmon.gaps().items():
        src = open(p, encoding='utf-8').read().split('\n')
        ex = covmon.executable_lines(p)
        out.append('## %s: %d of %d executable lines never executed, %d branch lines seen one way only' % (
            os.path.relpath(p, os.path.dirname(covmon._root)), len(missed), len(ex), len(one)))
        out.append('')
        out.append('never executed:')
        out += ['    %5d  %s' % (l, src[l - 1].rstrip()[:150]) for l in missed]
        out.append('')
        out.append('one way only:')
        out += ['    %5d  %s' % (l, src[l - 1].rstrip()[:150]) for l in one]
        out.append('')
    text = '\n'.join(out)
    if '--md' in sys.argv:
        open(os.path.join(ROOT, sys.argv[sys.argv.index('--md') + 1]), 'w').write(text + '\n')
    else:
        print(text)


if __name__ == '__main__':
    main()
