#!/usr/bin/env python3
"""List what NO check's cases reach in /repo/src/ansi_string: lines never executed and conditional jumps seen one way
only, merged over build/cov/<id>.json (written by every ./check run, harness/covmon.py).  A development aid for the
generators - a change on a line no case reaches cannot be noticed by the correspondence or the oracles.
usage: /venv/bin/python tools/coverage_gaps.py [--md notes/coverage_gaps.md]"""
import json, os, sys
ROOT = os.path.dirname(os.path.dirname(os.path.abspath(__file__)))
sys.path.insert(0, ROOT)
from harness import covmon


def main():
    covmon._root = os.path.realpath(os.path.join(os.environ.get('VERIF_SRC', '/repo/src'), 'ansi_string'))
    d = os.path.join(ROOT, 'build', 'cov')
    ids = []
    for f in sorted(x for x in os.listdir(d) if x.endswith('.json')) if os.path.isdir(d) else []:
        covmon.load(json.load(open(os.path.join(d, f)))); ids.append(f[:-5])
    out = ['# Implementation code no check reaches', '',
           'Merged over the quick runs of: %s.' % ' '.join(ids), '']
    for p, (missed, one) in covmon.gaps().items():
        src = open(p, encoding='utf-8').read().split('\n')
        ex = covmon.executable_lines(p)
        out.append('## %s: %d of %d executable lines never executed, %d branch lines seen one way only' % (
            os.path.relpath(p, os.path.dirname(covmon._root)), len(missed), len(ex), len(one)))
        out.append('')
        out.append('never executed:')
        out += ['    %5d  %s' % (l, src[l - 1].rstrip()[:150]) for l in missed]
        out.append('')
        out.append('one way only:')
        out += ['    %5d  %s' % (l, src[l - 1].rstrip()[:150]) for l in one]
        out.append('')
    text = '\n'.join(out)
    if '--md' in sys.argv:
        open(os.path.join(ROOT, sys.argv[sys.argv.index('--md') + 1]), 'w').write(text + '\n')
    else:
        print(text)


if __name__ == '__main__' and '--args' not in sys.argv:
    main()


def arg_report():
    """merged argument kinds (build/cov/<id>.args, written when VERIF_ARGCOV=1): parameters that saw a single kind"""
    import glob, inspect
    merged = {}
    for f in sorted(glob.glob(os.path.join(ROOT, 'build', 'cov', '*.args'))):
        for q, d in json.load(open(f)).items():
            for p, kinds in d.items():
                merged.setdefault(q, {}).setdefault(p, set()).update(kinds)
    out = ['# Argument kinds seen per parameter (merged over the quick runs with VERIF_ARGCOV=1)', '']
    sys.path.insert(0, os.environ.get('VERIF_SRC', '/repo/src'))
    import ansi_string.ansi_string as m1, ansi_string.ansi_format as m2, ansi_string.ansi_parsing as m3
    public = []
    for mod in (m1, m2, m3):
        for cname, cls in inspect.getmembers(mod, inspect.isclass):
            if cls.__module__ != mod.__name__:
                continue
            for n, fn in cls.__dict__.items():
                f = fn.__func__ if isinstance(fn, (staticmethod, classmethod)) else (fn.fget if isinstance(fn, property) else fn)
                if inspect.isfunction(f):
                    public.append(f.__qualname__)
        for n, fn in inspect.getmembers(mod, inspect.isfunction):
            if fn.__module__ == mod.__name__:
                public.append(fn.__qualname__)
    never = sorted(q for q in set(public) if q not in merged)
    out.append('## functions never called: %d' % len(never))
    out += ['    ' + q for q in never]
    out.append('')
    out.append('## parameters that saw a single kind of value')
    for q in sorted(merged):
        for p, kinds in merged[q].items():
            if p in ('self', 'cls') or len(kinds) > 1:
                continue
            out.append('    %-55s %-20s %s' % (q, p, sorted(kinds)))
    out.append('')
    out.append('## all')
    for q in sorted(merged):
        out.append('    ' + q)
        for p, kinds in merged[q].items():
            if p not in ('self', 'cls'):
                out.append('        %-22s %s' % (p, ', '.join(sorted(kinds))))
    return '\n'.join(out)


if '--args' in sys.argv:
    open(os.path.join(ROOT, 'notes', 'argument_kinds.md'), 'w').write(arg_report() + '\n')
