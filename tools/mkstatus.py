#!/usr/bin/env python3
"""Regenerate the machine-derived tables of DESIGN.md section 13 (between the markers
<!-- BEGIN GENERATED STATUS --> and <!-- END GENERATED STATUS -->): theorems per property file,
seeded changes and the checks that catch them, known findings."""
import json, os, re, glob
ROOT = os.path.dirname(os.path.dirname(os.path.abspath(__file__)))

def strip_comments(text):
    out, depth, i = [], 0, 0
    while i < len(text):
        if text.startswith('(*', i): depth += 1; i += 2
        elif text.startswith('*)', i) and depth: depth -= 1; i += 2
        else:
            if not depth: out.append(text[i])
            i += 1
    return ''.join(out)

lines = []
lines.append('### 13.2 Theorems per property (generated from `coq/Properties/*.v`)\n')
lines.append('| Property | Theorems in the property file (each followed by `Print Assumptions`, all closed) | Proof files imported |')
lines.append('|---|---|---|')
for f in sorted(glob.glob(os.path.join(ROOT, 'coq', 'Properties', 'C*.v'))):
    src = strip_comments(open(f).read())
    th = re.findall(r'^\s*(?:Theorem|Corollary)\s+(\w+)', src, re.M)
    imps = sorted(set(re.findall(r'\b(\w+Proofs\w*|Gen\w+|ParseBasics|SgrAlgebra)\b', ' '.join(re.findall(r'From AS\.Proofs Require Import ([^.]*)\.', src)))))
    lines.append('| %s | %s | %s |' % (os.path.basename(f)[:-2], ', '.join('`%s`' % t for t in th), ', '.join(imps)))
lines.append('')
lines.append('### 13.5 Seeded changes (generated from `seeded/*/meta.json`)\n')
lines.append('| Seed | Breaks | Change | Needs, to manifest | Confirmed (tests pass, demo fails) | Caught by (quick check, exit 1) |')
lines.append('|---|---|---|---|---|---|')
for d in sorted(glob.glob(os.path.join(ROOT, 'seeded', '*'))):
    mp = os.path.join(d, 'meta.json')
    if not os.path.exists(mp): continue
    m = json.load(open(mp))
    res = m.get('check_results', {})
    caught = []
    for p_, r in sorted(res.items()):
        if r.get('exit') == 1:
            nf = any('no-failing-input-found' in l for l in r.get('lines', []))
            caught.append(p_ + (' (no failing input found)' if nf and not any(('VIOLATION' in l and 'no-failing' not in l) for l in r.get('lines', [])) else ''))
    missed = [p_ for p_, r in sorted(res.items()) if r.get('exit') == 0]
    lines.append('| %s | %s | %s | %s | %s | %s%s |' % (os.path.basename(d), m.get('breaks', ''), m.get('title', ''), m.get('needs', ''),
                 'yes' if m.get('confirmed') else 'NO', ', '.join(caught) or '-', ('; not by ' + ', '.join(missed)) if missed else ''))
lines.append('')
lines.append('### 13.5c Behaviour-preserving refactorings (generated from `harmless/*/meta.json`; no check may report them)\n')
lines.append('| Patch | Region | What was rewritten | Pinned tests | Quick checks that stayed quiet | Alarms |')
lines.append('|---|---|---|---|---|---|')
for d in sorted(glob.glob(os.path.join(ROOT, 'harmless', '*'))):
    mp = os.path.join(d, 'meta.json')
    if not os.path.exists(mp): continue
    m = json.load(open(mp))
    lines.append('| %s | %s | %s | %s | %d of %d | %s |' % (os.path.basename(d), m.get('region', ''), m.get('what', '').replace('|', '/'), m.get('tests', ''),
                 len(m.get('quiet', [])), len(m.get('quiet', [])) + len(m.get('alarms', [])), ', '.join(m.get('alarms', [])) or 'none'))
lines.append('')
k = json.load(open(os.path.join(ROOT, 'known_findings.json')))
lines.append('### 13.4 Findings (generated from `known_findings.json`)\n')
lines.append('| Id | Status | Properties | Repair commit | What failed |')
lines.append('|---|---|---|---|---|')
for e in k['findings']:
    lines.append('| %s | %s | %s | %s | %s |' % (e['id'], e['status'], ' '.join(e.get('properties', [])), e.get('commit', '-'), e['what'].replace('|', '/')))
gen = '\n'.join(lines) + '\n'
p = os.path.join(ROOT, 'DESIGN.md')
s = open(p).read()
a, b = '<!-- BEGIN GENERATED STATUS -->', '<!-- END GENERATED STATUS -->'
if a in s:
    s = s[:s.index(a) + len(a)] + '\n' + gen + s[s.index(b):]
    open(p, 'w').write(s)
    print('DESIGN.md section 13 tables regenerated')
else:
    print(gen)
