#!/usr/bin/env python3
"""Evaluate one seeded change:  tools/seedtest.py <seed name> <dir with patch.diff, demo.py> <property id> [more property ids]
1. scratch worktree: apply patch, run the pinned test suite (must pass), run demo.py (must fail);
   without the patch demo.py must pass;
2. apply the patch to /repo, run ./check <id> --tier quick for each property, undo the patch;
3. write /verif/seeded/<seed name>/{patch.diff, demo.py, meta.json}.
Nothing is ever committed to /repo."""
import json, os, shutil, subprocess, sys, time

def sh(cmd, cwd=None, timeout=3600, env=None):
    p = subprocess.run(cmd, shell=True, cwd=cwd, capture_output=True, text=True, timeout=timeout, env=env)
    out = '\n'.join(l for l in (p.stdout + p.stderr).split('\n') if 'conda.cli.condarc' not in l)
    return p.returncode, out

def main():
    name, src, props = sys.argv[1], sys.argv[2], sys.argv[3:]
    dst = os.path.join('/verif/seeded', name)
    os.makedirs(dst, exist_ok=True)
    for f in ('patch.diff', 'demo.py', 'notes.md'):
        if os.path.exists(os.path.join(src, f)) and os.path.abspath(src) != os.path.abspath(dst):
            shutil.copy(os.path.join(src, f), os.path.join(dst, f))
    patch = os.path.join(dst, 'patch.diff')
    demo = os.path.join(dst, 'demo.py')
    wt = '/tmp/seedtest_wt_%d' % os.getpid()
    meta = {'seed': name, 'properties_checked': props, 'ran': []}
    rc, out = sh('git -C /repo status --porcelain')
    if out.strip():
        print('REFUSING: /repo has uncommitted changes:\n' + out); return 2
    try:
        sh('git -C /repo worktree add --detach %s HEAD' % wt)
        env = dict(os.environ, PYTHONPATH=wt + '/src', PYTHONDONTWRITEBYTECODE='1')
        rc0, out0 = sh('/venv/bin/python %s' % demo, cwd=wt, env=env, timeout=300)
        meta['demo_without_change'] = {'exit': rc0, 'tail': out0[-300:]}
        rc, out = sh('git apply %s' % patch, cwd=wt)
        if rc != 0:
            print('patch does not apply: ' + out); meta['patch_applies'] = False
            json.dump(meta, open(os.path.join(dst, 'meta.json'), 'w'), indent=1); return 2
        rc1, out1 = sh('/venv/bin/python -m pytest -q -p no:cacheprovider', cwd=wt, env=env, timeout=900)
        meta['tests_with_change'] = {'exit': rc1, 'tail': out1.strip().split('\n')[-1]}
        rc2, out2 = sh('/venv/bin/python %s' % demo, cwd=wt, env=env, timeout=300)
        meta['demo_with_change'] = {'exit': rc2, 'tail': out2[-500:]}
        meta['confirmed'] = (rc0 == 0 and rc1 == 0 and rc2 != 0)
        meta['ran'].append('scratch worktree: demo without change, git apply, pytest, demo with change')
    finally:
        sh('git -C /repo worktree remove --force %s' % wt)
    print('confirmed' if meta.get('confirmed') else 'NOT CONFIRMED', json.dumps({k: meta[k] for k in ('demo_without_change', 'tests_with_change', 'demo_with_change') if k in meta})[:600])
    results = {}
    if meta.get('confirmed') and props:
        rc, out = sh('git -C /repo apply %s' % patch)
        try:
            for p in props:
                t0 = time.time()
                rc, out = sh('./check %s --tier quick' % p, cwd='/verif', timeout=3000)
                lines = [l for l in out.split('\n') if l.startswith('VIOLATION') or l.startswith('KNOWN-FINDING') or l.startswith('INTERNAL') or 'quick:' in l]
                results[p] = {'exit': rc, 'lines': lines[:8], 'wall_s': round(time.time() - t0)}
                print(p, 'exit', rc, '|', ' | '.join(lines[:3])[:400])
        finally:
            sh('git -C /repo checkout -- .')
            rc, out = sh('git -C /repo status --porcelain')
            if out.strip():
                print('WARNING: /repo not clean after undo: ' + out)
            # bring the generated tables and the compiled development back in step with the unchanged tree
            sh('make translate', cwd='/verif')
            sh('timeout 3000 make -k -f Makefile.coq -j12', cwd='/verif/coq')
        meta['ran'].append('git -C /repo apply; ./check <id> --tier quick for %s; git -C /repo checkout -- .' % ', '.join(props))
    meta['check_results'] = results
    meta['detected_by'] = sorted(p for p, r in results.items() if r['exit'] == 1)
    old = {}
    if os.path.exists(os.path.join(dst, 'meta.json')):
        try: old = json.load(open(os.path.join(dst, 'meta.json')))
        except Exception: old = {}
    for k in ('breaks', 'needs', 'title'):
        if k in old: meta[k] = old[k]
    json.dump(meta, open(os.path.join(dst, 'meta.json'), 'w'), indent=1)
    return 0

if __name__ == '__main__':
    sys.exit(main())
