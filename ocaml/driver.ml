(* Hand-written driver: reads one S-expression of integers per line, prints the model's answer.
   Syntax: atom = decimal integer (optionally negative), list = ( item item ... ). *)
open Model

let rec pos_of_int (i:int) : positive =
  if i = 1 then XH else if i land 1 = 1 then XI (pos_of_int (i lsr 1)) else XO (pos_of_int (i lsr 1))
let z_of_int (i:int) : z = if i = 0 then Z0 else if i > 0 then Zpos (pos_of_int i) else Zneg (pos_of_int (-i))
let rec int_of_pos = function XH -> 1 | XI p -> 2 * int_of_pos p + 1 | XO p -> 2 * int_of_pos p
let int_of_z = function Z0 -> 0 | Zpos p -> int_of_pos p | Zneg p -> - (int_of_pos p)

(* parser over a string with a cursor *)
let parse (s:Stdlib.String.t) : sx =
  let n = Stdlib.String.length s in
  let pos = ref 0 in
  let rec skip () = if !pos < n && (s.[!pos] = ' ' || s.[!pos] = '\t' || s.[!pos] = '\r') then (incr pos; skip ()) in
  let rec item () : sx =
    skip ();
    if !pos >= n then failwith "unexpected end";
    if s.[!pos] = '(' then begin
      incr pos;
      let acc = ref [] in
      let fin = ref false in
      while not !fin do
        skip ();
        if !pos >= n then failwith "unterminated list";
        if s.[!pos] = ')' then (incr pos; fin := true) else acc := item () :: !acc
      done;
      L (List.rev !acc)
    end else begin
      let st = !pos in
      if s.[!pos] = '-' then incr pos;
      while !pos < n && s.[!pos] >= '0' && s.[!pos] <= '9' do incr pos done;
      if !pos = st then failwith "bad atom";
      A (z_of_int (int_of_string (Stdlib.String.sub s st (!pos - st))))
    end in
  item ()

let rec print (b:Buffer.t) (x:sx) : unit =
  match x with
  | A z -> Buffer.add_string b (string_of_int (int_of_z z))
  | L l -> Buffer.add_char b '(';
           List.iteri (fun i y -> if i > 0 then Buffer.add_char b ' '; print b y) l;
           Buffer.add_char b ')'

let () =
  let b = Buffer.create 65536 in
  try while true do
    let line = input_line stdin in
    Buffer.clear b;
    (try print b (run_request (parse line))
     with Failure m -> (Buffer.clear b; Buffer.add_string b ("!" ^ m))
        | Stack_overflow -> (Buffer.clear b; Buffer.add_string b "!stack"));
    Buffer.add_char b '\n';
    print_string (Buffer.contents b);
    flush stdout
  done with End_of_file -> ()
